#!/bin/sh
# Run once after a fresh restore, offline. Pre-builds the third-party dependency graph of the
# crates under contract with the Kani compiler (cargo registry on disk only) so that checks
# only recompile the workspace crates. Safe to re-run.
set -e
cd "$(dirname "$0")"
mkdir -p .cache evidence replays
export CARGO_NET_OFFLINE=true
exec python3 lib/warm.py
