// Contracts for rbx_reflection/src/migration.rs (rule R1 child module).
// FONT_ITEMS / FONT_NAMES are generated on every run from rbx_reflection_database/database.msgpack
// (rule R6, lib/arms.py) - the database is data (assumption A6); the function is what is proved.

use rbx_types::{BrickColor, Color3uint8, ContentId, ContentType};

/// constructor for the other crates' harnesses (fields of PropertyMigration are private)
pub fn mk_migration(new_property_name: &str, op: MigrationOperation) -> PropertyMigration {
    PropertyMigration { new_property_name: new_property_name.to_owned(), migration: op }
}

fn font_ok(v: u32) -> bool {
    let m = mk_migration("FontFace", MigrationOperation::FontToFontFace);
    let input = Variant::Enum(Enum::from_u32(v));
    let r = m.perform(&input);
    let ok = match &r {
        Ok(Variant::Font(f)) => !f.family.is_empty(),
        _ => false,
    };
    std::mem::forget(r);
    std::mem::forget(m);
    ok
}

//@include generated:font_items

//@ obligation: U9.perform.brick
//@ props: C15
//@ fns: PropertyMigration::perform[BrickColorToColor]
//@ kind: complete
//@ covers: 1
//@ checks: functional
//@ note: every BrickColor number the colour table allows migrates, to exactly that colour's RGB
#[kani::proof]
#[kani::unwind(3)]
fn u9_perform_brick() {
    let n: u16 = kani::any();
    if let Some(c) = BrickColor::from_number(n) {
        let m = mk_migration("Color", MigrationOperation::BrickColorToColor);
        let r = m.perform(&Variant::BrickColor(c));
        let want: Color3uint8 = c.to_color3uint8();
        assert!(match &r { Ok(Variant::Color3uint8(x)) => *x == want, _ => false });
        kani::cover!(n == 194, "Medium stone grey reached");
        std::mem::forget(r);
        std::mem::forget(m);
    }
}

//@ obligation: U9.perform.bool
//@ cost: heavy
//@ props: C15
//@ fns: PropertyMigration::perform[IgnoreGuiInsetToScreenInsets]
//@ kind: complete
//@ covers: 1
//@ checks: functional
//@ note: both booleans migrate, to two different enum values; a value of another type is an error, not a panic
#[kani::proof]
#[kani::unwind(3)]
fn u9_perform_bool() {
    let m = mk_migration("ScreenInsets", MigrationOperation::IgnoreGuiInsetToScreenInsets);
    let rt = m.perform(&Variant::Bool(true));
    let rf = m.perform(&Variant::Bool(false));
    let a = match &rt { Ok(Variant::Enum(e)) => Some(e.to_u32()), _ => None };
    let b = match &rf { Ok(Variant::Enum(e)) => Some(e.to_u32()), _ => None };
    assert!(a.is_some() && b.is_some() && a != b);
    // deterministic: a second call gives the same value
    let rt2 = m.perform(&Variant::Bool(true));
    assert!(match &rt2 { Ok(Variant::Enum(e)) => Some(e.to_u32()) == a, _ => false });
    let wrong = m.perform(&Variant::Int32(1));
    assert!(wrong.is_err());
    kani::cover!(true, "end of harness reached");
    std::mem::forget(rt);
    std::mem::forget(rf);
    std::mem::forget(rt2);
    std::mem::forget(wrong);
    std::mem::forget(m);
}

//@ obligation: U9.perform.content
//@ props: C15
//@ fns: PropertyMigration::perform[ContentIdToContent]
//@ kind: bounded
//@ bound: URIs of length 0 and 2 (ASCII, symbolic)
//@ checks: functional
//@ covers: 1
//@ note: empty ContentId -> Content::none; any other URI -> Content::Uri with the same text
#[kani::proof]
#[kani::unwind(6)]
fn u9_perform_content() {
    let m = mk_migration("MeshContent", MigrationOperation::ContentIdToContent);
    let empty = Variant::ContentId(ContentId::from(String::new()));
    let r0 = m.perform(&empty);
    assert!(match &r0 { Ok(Variant::Content(c)) => matches!(c.value(), ContentType::None), _ => false });
    let c: [u8; 2] = kani::any();
    kani::assume(c[0] < 0x80 && c[1] < 0x80);
    let uri = Variant::ContentId(ContentId::from(unsafe { String::from_utf8_unchecked(vec![c[0], c[1]]) }));
    let r1 = m.perform(&uri);
    assert!(match &r1 {
        Ok(Variant::Content(x)) => match x.value() {
            ContentType::Uri(u) => u.len() == 2 && u.as_bytes()[0] == c[0] && u.as_bytes()[1] == c[1],
            _ => false,
        },
        _ => false,
    });
    kani::cover!(true, "end of harness reached");
    std::mem::forget(r0);
    std::mem::forget(r1);
    std::mem::forget(empty);
    std::mem::forget(uri);
    std::mem::forget(m);
}

//@ canary: yes
//@ props: C15
//@ checks: functional
#[kani::proof]
#[kani::unwind(3)]
fn canary_u9() {
    let v: u32 = kani::any();
    assert!(font_ok(v));
}
