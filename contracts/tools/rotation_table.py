#!/usr/bin/env python3
"""Independent oracle for the 24 basic CFrame rotation ids.

Input: the ID -> (X, Y, Z) Euler-angle table of docs/binary.md section CFrame ("Rotations in
this table are in degrees and are applied in the order Y -> X -> Z"), i.e. R = Ry * Rx * Rz.
Output: Rust source of `spec_rotation(id) -> Option<[[i8;3];3]>` (entries are -1/0/1) (rows R0*, R1*, R2*),
pasted into contracts/rbx_types/basic_types.kani.rs. Nothing here reads the code under contract.
"""
import math
TABLE = {
 0x02:(0,0,0), 0x14:(0,180,0), 0x03:(90,0,0), 0x15:(-90,-180,0), 0x05:(0,180,180), 0x17:(0,0,180),
 0x06:(-90,0,0), 0x18:(90,180,0), 0x07:(0,180,90), 0x19:(0,0,-90), 0x09:(0,90,90), 0x1b:(0,-90,-90),
 0x0a:(0,0,90), 0x1c:(0,-180,-90), 0x0c:(0,-90,90), 0x1e:(0,90,-90), 0x0d:(-90,-90,0), 0x1f:(90,90,0),
 0x0e:(0,-90,0), 0x20:(0,90,0), 0x10:(90,-90,0), 0x22:(-90,90,0), 0x11:(0,90,180), 0x23:(0,-90,180),
}
def mul(a,b): return [[sum(a[i][k]*b[k][j] for k in range(3)) for j in range(3)] for i in range(3)]
def rx(t): c,s=math.cos(t),math.sin(t); return [[1,0,0],[0,c,-s],[0,s,c]]
def ry(t): c,s=math.cos(t),math.sin(t); return [[c,0,s],[0,1,0],[-s,0,c]]
def rz(t): c,s=math.cos(t),math.sin(t); return [[c,-s,0],[s,c,0],[0,0,1]]
def mat(x,y,z):
    m=mul(mul(ry(math.radians(y)),rx(math.radians(x))),rz(math.radians(z)))
    return [[float(round(v)) for v in row] for row in m]
if __name__=="__main__":
    print("pub(super) fn spec_rotation(id: u8) -> Option<[[i8; 3]; 3]> {\n    Some(match id {")
    for k in sorted(TABLE):
        m=mat(*TABLE[k])
        assert all(abs(v) in (0.0,1.0) for r in m for v in r)
        rows=", ".join("[%s]"%", ".join("%d"%int(v) for v in r) for r in m)
        print("        0x%02x => [%s]," % (k, rows))
    print("        _ => return None,\n    })\n}")
