// Verus contracts for the loop nests of RbxWriteExt::write_interleaved_bytes and
// RbxReadExt::read_interleaved_bytes (rbx_binary/src/core.rs).
//
// The two function bodies below between the markers BEGIN/END EXTRACTED are produced on every
// run by lib/verus_extract.py (rule R4) from /repo's current core.rs:
//   * the statements from the first `let` up to (not including) the final I/O call are copied;
//   * `for (I, X) in E.iter().enumerate() { B }` becomes
//        `let mut I: usize = 0; while I < E.len() <invariants of this loop> { let X = &E[I]; B; I += 1; }`
//   * `for (I, X) in E.iter_mut().enumerate() { B }` becomes
//        `let mut I: usize = 0; while I < E.len() <invariants> { let mut X = E[I]; B[*X := X]; E[I] = X; I += 1; }`
//   * `vec![0; E]` becomes `zeros(E)` (verified helper below).
// Dropped: the trait receiver, `io::Result`, and the `read_exact` / `write_all` call (the buffer
// is a parameter / the return value instead). Invariants, decreases clauses and proof blocks are
// spliced from contracts/verus/interleave.inv.json, keyed by function and loop ordinal.
// Machine integers are exact (usize); `len * N <= usize::MAX` is a precondition (it holds for any
// slice that exists in memory).
use vstd::prelude::*;
verus! {

// docs/binary.md "Byte Interleaving": byte j of value i is stored at offset i + len*j
pub open spec fn idx(len: int, i: int, j: int) -> int { i + len * j }

proof fn lemma_idx_bound(len: int, n: int, i: int, j: int)
    requires 0 <= i < len, 0 <= j < n,
    ensures 0 <= idx(len, i, j) < len * n,
{
    assert(len * j + len <= len * n) by (nonlinear_arith)
        requires 0 <= j < n, 0 < len;
    assert(0 <= len * j) by (nonlinear_arith) requires 0 <= j, 0 <= len;
}

proof fn lemma_idx_inj(len: int, i1: int, j1: int, i2: int, j2: int)
    requires 0 <= i1 < len, 0 <= i2 < len, 0 <= j1, 0 <= j2, idx(len, i1, j1) == idx(len, i2, j2),
    ensures i1 == i2 && j1 == j2,
{
    if j1 != j2 {
        if j1 < j2 {
            assert(len * j2 - len * j1 >= len) by (nonlinear_arith) requires j1 < j2, 0 < len;
        } else {
            assert(len * j1 - len * j2 >= len) by (nonlinear_arith) requires j2 < j1, 0 < len;
        }
    }
}

fn zeros(n: usize) -> (v: Vec<u8>)
    ensures v.len() == n, forall|k: int| 0 <= k < n ==> v[k] == 0u8,
{
    let mut v: Vec<u8> = Vec::new();
    let mut k: usize = 0;
    while k < n
        invariant k <= n, v.len() == k, forall|q: int| 0 <= q < k ==> v[q] == 0u8,
        decreases n - k,
    {
        v.push(0u8);
        k += 1;
    }
    v
}

// U2v.write: the blob holds byte j of value i at offset i + len*j, for ALL len and N
fn write_region<const N: usize>(values: &[[u8; N]]) -> (blob: Vec<u8>)
    requires values.len() * N <= usize::MAX,
    ensures
        blob.len() == values.len() * N,
        forall|i: int, j: int| 0 <= i < values.len() && 0 <= j < N ==> blob[#[trigger] idx(values.len() as int, i, j)] == values[i][j],
{
// BEGIN EXTRACTED write_interleaved_bytes
@@WRITE@@
// END EXTRACTED
    blob
}

// U2v.read: output[i][j] is the byte at offset i + len*j of the buffer, for ALL len and N
fn read_region<const N: usize>(output: &mut [[u8; N]], buffer: &Vec<u8>)
    requires old(output).len() * N == buffer.len(),
    ensures
        final(output).len() == old(output).len(),
        forall|i: int, j: int| 0 <= i < final(output).len() && 0 <= j < N ==> final(output)[i][j] == buffer[#[trigger] idx(old(output).len() as int, i, j)],
{
// BEGIN EXTRACTED read_interleaved_bytes
@@READ@@
// END EXTRACTED
}

// U2v.roundtrip: a lemma over the two contracts only
fn roundtrip<const N: usize>(values: &[[u8; N]], output: &mut [[u8; N]])
    requires values.len() * N <= usize::MAX, old(output).len() == values.len(),
    ensures final(output).len() == values.len(), forall|i: int, j: int| 0 <= i < values.len() && 0 <= j < N ==> #[trigger] final(output)[i][j] == values[i][j],
{
    let blob = write_region(values);
    read_region(output, &blob);
    proof {
        let len = values.len() as int;
        assert forall|i: int, j: int| 0 <= i < values.len() && 0 <= j < N implies #[trigger] output[i][j] == values[i][j] by {
            let k = idx(len, i, j);
            assert(blob[k] == values[i][j]);
            assert(output[i][j] == blob[k]);
        }
    }
}

// docs/binary.md "Integer transformations": read as an unsigned number the stored word is 2x for
// x >= 0 and -2x-1 for x < 0. Second back end for U1.zz32.spec (bit-vector reasoning); the body
// expression between the markers is the body of core.rs `transform_i32`, copied on every run.
pub open spec fn zz(v: int) -> int { if v >= 0 { 2 * v } else { -2 * v - 1 } }

fn transform_i32_region(value: i32) -> (r: i32)
    ensures (r as u32) as int == zz(value as int),
{
// BEGIN EXTRACTED transform_i32
    let r =
@@ZZ32@@
    ;
// END EXTRACTED
    // the document's formula, as bit-vector facts
    assert((((value << 1) ^ (value >> 31)) as u32) == (if value >= 0 { 2 * (value as u32) } else { (!(value as u32)) * 2 + 1 }) as u32) by (bit_vector);
    assert(value < 0 ==> (!(value as u32)) as int == -(value as int) - 1) by (bit_vector);
    r
}

// The same formula for the 64-bit codec (Int64 columns, SecurityCapabilities); body of core.rs
// `transform_i64` copied on every run.
fn transform_i64_region(value: i64) -> (r: i64)
    ensures (r as u64) as int == zz(value as int),
{
// BEGIN EXTRACTED transform_i64
    let r =
@@ZZ64@@
    ;
// END EXTRACTED
    assert((((value << 1) ^ (value >> 63)) as u64) == (if value >= 0 { 2 * (value as u64) } else { (!(value as u64)) * 2 + 1 }) as u64) by (bit_vector);
    assert(value < 0 ==> (!(value as u64)) as int == -(value as int) - 1) by (bit_vector);
    r
}

// Decoding direction, stated from the document and not from the encoder: the result is THE number
// whose documented coding is the stored word (zz is injective, lemma_zz_inj), for every stored word.
// Bodies of core.rs `untransform_i32` / `untransform_i64` copied on every run. The first assert only
// establishes that the unary minus in the body cannot overflow.
fn untransform_i32_region(value: i32) -> (r: i32)
    ensures (value as u32) as int == zz(r as int),
{
    assert((value & 1) == 0 || (value & 1) == 1) by (bit_vector);
// BEGIN EXTRACTED untransform_i32
    let r =
@@UNZZ32@@
    ;
// END EXTRACTED
    assert({
        let r = (((value as u32) >> 1) as i32) ^ ((0i32 - (value & 1)) as i32);
        (value as u32) == (if r >= 0 { 2 * (r as u32) } else { (!(r as u32)) * 2 + 1 }) as u32
          && (r >= 0 ==> (r as u32) < 0x8000_0000u32) && (r < 0 ==> (!(r as u32)) < 0x8000_0000u32)
    }) by (bit_vector);
    assert(r < 0 ==> (!(r as u32)) as int == -(r as int) - 1) by (bit_vector);
    r
}

fn untransform_i64_region(value: i64) -> (r: i64)
    ensures (value as u64) as int == zz(r as int),
{
    assert((value & 1) == 0 || (value & 1) == 1) by (bit_vector);
// BEGIN EXTRACTED untransform_i64
    let r =
@@UNZZ64@@
    ;
// END EXTRACTED
    assert({
        let r = (((value as u64) >> 1) as i64) ^ ((0i64 - (value & 1)) as i64);
        (value as u64) == (if r >= 0 { 2 * (r as u64) } else { (!(r as u64)) * 2 + 1 }) as u64
          && (r >= 0 ==> (r as u64) < 0x8000_0000_0000_0000u64) && (r < 0 ==> (!(r as u64)) < 0x8000_0000_0000_0000u64)
    }) by (bit_vector);
    assert(r < 0 ==> (!(r as u64)) as int == -(r as int) - 1) by (bit_vector);
    r
}

// Round trip from the contracts alone: the document's coding is injective, so the decoder's result
// for a word produced by the encoder is the encoder's argument.
proof fn lemma_zz_inj(a: int, b: int)
    requires zz(a) == zz(b),
    ensures a == b,
{}

fn zz32_roundtrip(x: i32) -> (y: i32)
    ensures y == x,
{
    let w = transform_i32_region(x);
    let y = untransform_i32_region(w);
    proof { lemma_zz_inj(x as int, y as int); }
    y
}

fn zz64_roundtrip(x: i64) -> (y: i64)
    ensures y == x,
{
    let w = transform_i64_region(x);
    let y = untransform_i64_region(w);
    proof { lemma_zz_inj(x as int, y as int); }
    y
}

} // verus!
fn main() {}
