// Contracts for rbx_types/src/basic_types.rs (rule R1 child module).
// The Kani function contracts on `approx_unit_or_zero`, `Vector3::to_normal_id` and
// `Matrix3::to_basic_rotation_id` themselves are spliced above the fn items by rule R2
// (contracts/splice.json); the harnesses below discharge them (`proof_for_contract`) and
// repeat the postcondition as a plain assert so that a counterexample replays natively.

fn post_approx(value: f32, r: Option<i32>) -> bool {
    match r {
        Some(0) => value.abs() <= f32::EPSILON,
        Some(1) => (value - 1.0).abs() <= f32::EPSILON,
        Some(-1) => (value + 1.0).abs() <= f32::EPSILON,
        Some(_) => false,
        None => !(value.abs() <= f32::EPSILON
            || (value - 1.0).abs() <= f32::EPSILON
            || (value + 1.0).abs() <= f32::EPSILON),
    }
}

//@ obligation: U6.approx
//@ props: C01 C14
//@ fns: approx_unit_or_zero
//@ kind: complete
//@ covers: 3
//@ note: proof_for_contract of the spliced ensures-clauses: Some(k) only within f32::EPSILON of k in {0,1,-1}; None only outside; all 2^32 floats incl. NaN/inf
#[kani::proof_for_contract(approx_unit_or_zero)]
fn u6_approx() {
    let v: f32 = kani::any();
    let r = approx_unit_or_zero(v);
    assert!(post_approx(v, r));
    kani::cover!(r == Some(1), "unit reached");
    kani::cover!(r == Some(0), "zero reached");
    kani::cover!(r.is_none(), "neither reached");
}
