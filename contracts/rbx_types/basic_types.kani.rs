// Contracts for rbx_types/src/basic_types.rs (rule R1 child module).
// The Kani function contracts on `approx_unit_or_zero`, `Vector3::to_normal_id` and
// `Matrix3::to_basic_rotation_id` themselves are spliced above the fn items by rule R2
// (contracts/splice.json) and refer to the predicates below; the harnesses discharge them
// (`proof_for_contract`), the callers are checked against the callee's CONTRACT
// (`stub_verified`), and each harness repeats its postcondition as a plain assert so that a
// counterexample replays natively.

//@include shared/rotid_contract.rs.inc

pub(super) fn post_approx(value: f32, r: Option<i32>) -> bool {
    match r {
        Some(0) => near(value, 0),
        Some(1) => near(value, 1),
        Some(-1) => near(value, -1),
        Some(_) => false,
        // declining to classify is always allowed (the callers then do not snap)
        None => true,
    }
}

/// k-th signed basis vector in the numbering documented on `to_normal_id`.
pub(super) fn basis(k: u8) -> [i8; 3] {
    match k {
        0 => [1, 0, 0],
        1 => [0, 1, 0],
        2 => [0, 0, 1],
        3 => [-1, 0, 0],
        4 => [0, -1, 0],
        _ => [0, 0, -1],
    }
}

pub(super) fn near_basis(v: &Vector3, k: u8) -> bool {
    let b = basis(k);
    near(v.x, b[0]) && near(v.y, b[1]) && near(v.z, b[2])
}

/// Some(k) only within epsilon of the k-th signed basis vector; None is always allowed.
pub(super) fn post_normal(v: &Vector3, r: Option<u8>) -> bool {
    match r {
        Some(k) => k < 6 && near_basis(v, k),
        None => true,
    }
}

//@ obligation: U6.approx
//@ props: C01 C14
//@ fns: approx_unit_or_zero
//@ kind: complete
//@ covers: 3
//@ note: proof_for_contract of the spliced ensures: Some(k) only within f32::EPSILON of k in {0,1,-1} (None always allowed); all 2^32 floats incl. NaN/inf
#[kani::proof_for_contract(approx_unit_or_zero)]
fn u6_approx() {
    let v: f32 = kani::any();
    let r = approx_unit_or_zero(v);
    assert!(post_approx(v, r));
    kani::cover!(r == Some(1), "unit reached");
    kani::cover!(r == Some(0), "zero reached");
    kani::cover!(r.is_none(), "neither reached");
}

//@ obligation: U6.normal
//@ props: C01 C14
//@ fns: Vector3::to_normal_id
//@ kind: complete
//@ covers: 2
//@ note: modular: approx_unit_or_zero replaced by its verified contract (stub_verified); all 2^96 vectors
#[kani::proof_for_contract(Vector3::to_normal_id)]
#[kani::stub_verified(approx_unit_or_zero)]
fn u6_normal() {
    let v = Vector3::new(kani::any(), kani::any(), kani::any());
    let r = v.to_normal_id();
    assert!(post_normal(&v, r));
    kani::cover!(r == Some(4), "negative y axis reached");
    kani::cover!(r.is_none(), "non-axis reached");
}

//@ obligation: U6.rotid.sound
//@ cost: heavy
//@ props: C01 C14 C03
//@ fns: Matrix3::to_basic_rotation_id Matrix3::transpose
//@ kind: complete
//@ covers: 2
//@ checks: functional
//@ note: all 2^288 matrices: Some(id) only within epsilon of the documented rotation (None always allowed); modular: Vector3::to_normal_id replaced by its verified contract (stub_verified). The contract of this method is the shared predicate post_rotid (contracts/shared/rotid_contract.rs.inc): it is asserted here as a plain proof harness and assumed by callers' harnesses through rotid_by_contract, because Kani's own proof_for_contract / stub_verified instrumentation of this &self method exhausted 20 GB (measured) and a spliced kani::ensures would forbid plain stubbing. unwind(3) bounds the recursive drop glue of rbx_types::Error.
#[kani::proof]
#[kani::stub_verified(Vector3::to_normal_id)]
#[kani::unwind(3)]
fn u6_rotid_sound() {
    let m = Matrix3::new(
        Vector3::new(kani::any(), kani::any(), kani::any()),
        Vector3::new(kani::any(), kani::any(), kani::any()),
        Vector3::new(kani::any(), kani::any(), kani::any()),
    );
    let r = m.to_basic_rotation_id();
    assert!(post_rotid(&m, r));
    kani::cover!(r == Some(0x0a), "a snap is reachable");
    kani::cover!(r.is_none(), "no snap is reachable");
}

//@ obligation: U6.rotid.unique
//@ props: C01 C03 C14
//@ fns: Matrix3::to_basic_rotation_id
//@ kind: complete
//@ covers: 1
//@ checks: functional
//@ note: lemma over the contract: no matrix is within epsilon of two different documented rotations, so when the function snaps, the id is determined (used by the callers' harnesses that replace the function by its contract)
#[kani::proof]
fn u6_rotid_unique() {
    let m = Matrix3::new(
        Vector3::new(kani::any(), kani::any(), kani::any()),
        Vector3::new(kani::any(), kani::any(), kani::any()),
        Vector3::new(kani::any(), kani::any(), kani::any()),
    );
    let i: u8 = kani::any();
    let j: u8 = kani::any();
    if near_id(&m, i) && near_id(&m, j) {
        assert!(i == j);
        kani::cover!(i == 0x11, "a near matrix is reachable");
    }
}

//@ obligation: U6.rotid.table
//@ props: C01 C03 C04 C14
//@ fns: Matrix3::from_basic_rotation_id
//@ kind: complete
//@ covers: 2
//@ checks: functional
//@ note: all 256 ids: Ok exactly for the 24 ids of docs/binary.md, and then bit-equal to the matrix computed from the documented Euler angles (contracts/tools/rotation_table.py); the result is forgotten, not dropped (drop glue of rbx_types::Error)
#[kani::proof]
#[kani::unwind(2)]
fn u6_rotid_table() {
    let id: u8 = kani::any();
    let r = Matrix3::from_basic_rotation_id(id);
    let spec = spec_rotation(id);
    // accepted exactly for the ids the document lists
    assert!(r.is_ok() == spec.is_some());
    if let (Ok(m), Some(t)) = (&r, &spec) {
        assert!(m.x.x == t[0][0] as f32 && m.x.y == t[0][1] as f32 && m.x.z == t[0][2] as f32);
        assert!(m.y.x == t[1][0] as f32 && m.y.y == t[1][1] as f32 && m.y.z == t[1][2] as f32);
        assert!(m.z.x == t[2][0] as f32 && m.z.y == t[2][1] as f32 && m.z.z == t[2][2] as f32);
        // no negative zeros in the table (bit-identical round trips depend on it)
        assert!(m.x.x.to_bits() != 0x8000_0000 && m.x.y.to_bits() != 0x8000_0000 && m.x.z.to_bits() != 0x8000_0000);
        assert!(m.y.x.to_bits() != 0x8000_0000 && m.y.y.to_bits() != 0x8000_0000 && m.y.z.to_bits() != 0x8000_0000);
        assert!(m.z.x.to_bits() != 0x8000_0000 && m.z.y.to_bits() != 0x8000_0000 && m.z.z.to_bits() != 0x8000_0000);
    }
    kani::cover!(r.is_ok(), "valid id reached");
    kani::cover!(r.is_err(), "invalid id reached");
    core::mem::forget(r);
}

//@ obligation: U6.rotid.rt
//@ props: C01 C03 C14
//@ fns: Matrix3::to_basic_rotation_id Matrix3::from_basic_rotation_id Vector3::to_normal_id approx_unit_or_zero
//@ kind: complete
//@ covers: 1
//@ checks: functional
//@ note: monolithic (no stubs): for each of the 24 documented ids the writer side maps the table matrix back to the same id or to none (never to another id)
#[kani::proof]
#[kani::unwind(2)]
fn u6_rotid_rt() {
    let id: u8 = kani::any();
    kani::assume(spec_rotation(id).is_some());
    let r = Matrix3::from_basic_rotation_id(id);
    if let Ok(m) = &r {
        let back = m.to_basic_rotation_id();
        // snapping is permitted, not required: either the same id or no id
        assert!(match back { Some(x) => x == id, None => true });
        kani::cover!(back.is_some() && id == 0x23, "last id snapped");
    }
    core::mem::forget(r);
}

//@ obligation: U6.c3u8.idem
//@ props: C01 C14
//@ fns: Color3uint8::from Color3::from
//@ kind: complete
//@ covers: 1
//@ note: all 2^24 byte colours: widening to Color3 and quantising back is the identity (so quantisation is idempotent and an 8-bit colour survives a round trip through a Color3 property)
#[kani::proof]
fn u6_c3u8_idem() {
    let c = Color3uint8::new(kani::any(), kani::any(), kani::any());
    let wide: Color3 = c.into();
    let back: Color3uint8 = wide.into();
    assert!(back.r == c.r && back.g == c.g && back.b == c.b);
    kani::cover!(c.r == 255 && c.g == 0 && c.b == 128, "sample colour reached");
}

//@ obligation: U6.c3u8.total
//@ props: C01 C13 C14
//@ fns: Color3uint8::from
//@ kind: complete
//@ covers: 2
//@ note: any three f32 incl. NaN, infinities and out-of-range values quantise without panic; in-range channel values land on round(v*255)
#[kani::proof]
fn u6_c3u8_total() {
    let c = Color3::new(kani::any(), kani::any(), kani::any());
    let q: Color3uint8 = c.into();
    if c.r >= 1.0 {
        assert!(q.r == 255);
    }
    if c.r <= 0.0 {
        assert!(q.r == 0);
    }
    kani::cover!(c.r.is_nan(), "NaN channel reached");
    kani::cover!(q.g == 17, "interior value reached");
}

//@ canary: yes
//@ props: C01 C14 C03
#[kani::proof]
fn canary_u6() {
    let v: f32 = kani::any();
    let r = approx_unit_or_zero(v);
    assert!(r.is_some());
}
