// Contracts for rbx_types/src/unique_id.rs (rule R1 child module).
// Text form (docs/xml.md UniqueId, Display impl): 32 lowercase hex digits =
// random (16 digits, the i64's two's complement), time (8), index (8).

fn hex_val(c: u8) -> u64 {
    if c >= b'0' && c <= b'9' { (c - b'0') as u64 } else { (c - b'a' + 10) as u64 }
}

fn is_lower_hex(c: u8) -> bool {
    (c >= b'0' && c <= b'9') || (c >= b'a' && c <= b'f')
}

//@ obligation: U8.uid.parse
//@ props: C17
//@ fns: UniqueId::from_str
//@ kind: complete
//@ covers: 2
//@ checks: functional
//@ timeout: 1200
//@ note: every string of 32 lowercase hex digits parses, and the fields are the three numbers with the first 16 digits read as a 64-bit two's complement value; with A3 ({:016x}/{:08x} print exactly these digits) this is from_str(to_string(x)) == x for all 2^128 ids incl. negative random parts
#[kani::proof]
#[kani::unwind(34)]
fn u8_uid_parse() {
    let b: [u8; 32] = kani::any();
    let mut i = 0;
    while i < 32 {
        kani::assume(is_lower_hex(b[i]));
        i += 1;
    }
    let s = unsafe { core::str::from_utf8_unchecked(&b) };
    let r = UniqueId::from_str(s);
    assert!(r.is_ok());
    if let Ok(id) = &r {
        let mut random: u64 = 0;
        let mut i = 0;
        while i < 16 {
            random = (random << 4) | hex_val(b[i]);
            i += 1;
        }
        let mut time: u64 = 0;
        while i < 24 {
            time = (time << 4) | hex_val(b[i]);
            i += 1;
        }
        let mut index: u64 = 0;
        while i < 32 {
            index = (index << 4) | hex_val(b[i]);
            i += 1;
        }
        assert!(id.random() as u64 == random);
        assert!(id.time() as u64 == time);
        assert!(id.index() as u64 == index);
        kani::cover!(id.random() < 0, "negative random part reached");
        kani::cover!(id.random() > 0, "positive random part reached");
    }
    core::mem::forget(r);
}

fn uid_len_case<const N: usize>() {
    let b: [u8; N] = kani::any();
    let mut i = 0;
    while i < N {
        kani::assume(b[i] < 0x80);
        i += 1;
    }
    let s = unsafe { core::str::from_utf8_unchecked(&b) };
    let r = UniqueId::from_str(s);
    // whether such text is rejected is not prescribed - only that parsing it does not panic
    let _ = r.is_err();
    core::mem::forget(r);
}

//@ obligation: U8.uid.len
//@ props: C13 C17
//@ fns: UniqueId::from_str
//@ kind: bounded
//@ bound: ASCII strings of length 0, 1, 31 and 33 (contents symbolic)
//@ checks: functional
//@ note: text of any other length than 32 never makes the parser panic
#[kani::proof]
#[kani::unwind(35)]
fn u8_uid_len() {
    uid_len_case::<0>();
    uid_len_case::<1>();
    uid_len_case::<31>();
    uid_len_case::<33>();
}

//@ obligation: U8.uid.nonascii
//@ props: C13
//@ fns: UniqueId::from_str
//@ kind: complete
//@ covers: 1
//@ checks: functional
//@ timeout: 1200
//@ note: every 32-byte string made of hex digits and one two-byte character (U+00E9) at any offset never makes the parser panic (fixed-offset slicing must not split a character)
#[kani::proof]
#[kani::unwind(34)]
fn u8_uid_nonascii() {
    let mut b: [u8; 32] = kani::any();
    let p: usize = kani::any();
    kani::assume(p < 31);
    let mut i = 0;
    while i < 32 {
        kani::assume(is_lower_hex(b[i]));
        i += 1;
    }
    b[p] = 0xc3;
    b[p + 1] = 0xa9;
    let s = unsafe { core::str::from_utf8_unchecked(&b) };
    let r = UniqueId::from_str(s);
    let _ = r.is_err();
    kani::cover!(p == 15, "character straddling offset 16 reached");
    core::mem::forget(r);
}

//@ canary: yes
//@ props: C13 C17
//@ checks: functional
#[kani::proof]
#[kani::unwind(34)]
fn canary_u8_uid() {
    let b: [u8; 32] = kani::any();
    let s = unsafe { core::str::from_utf8_unchecked(&b) };
    kani::assume(b[0] < 0x80 && b[16] < 0x80 && b[24] < 0x80 && b[15] < 0x80 && b[23] < 0x80 && b[31] < 0x80);
    let r = UniqueId::from_str(s);
    assert!(r.is_ok());
    core::mem::forget(r);
}
