// Contracts for rbx_types/src/attributes (reader.rs, writer.rs, type_id.rs) - rule R1 child
// module of attributes/mod.rs. aw_<T> / ar_<T> / aw_head / ar_head are the verbatim arms and entry
// heads of write_attributes / read_attributes extracted by lib/arms.py (R3b) into
// writer::__verif and reader::__verif. (The real functions over a BTreeMap<String, Variant> with
// one entry exhausted 20 GB / 800 s in CBMC - measured - so only the empty map goes through them.) Layout oracle: docs/attributes.md (little-endian count, then
// name, type id, value per entry).

use crate::*;
use std::io;
use super::reader::__verif::*;
use super::writer::__verif::*;
use crate::basic_types::__verif::{post_rotid, spec_rotation};

/// independent little-endian writer for the expected blob
struct Blob {
    buf: [u8; 128],
    len: usize,
}
impl Blob {
    fn new() -> Self {
        Blob { buf: [0; 128], len: 0 }
    }
    fn u8(&mut self, b: u8) {
        self.buf[self.len] = b;
        self.len += 1;
    }
    fn u16(&mut self, v: u16) {
        self.u8(v as u8);
        self.u8((v >> 8) as u8);
    }
    fn u32(&mut self, v: u32) {
        self.u16(v as u16);
        self.u16((v >> 16) as u16);
    }
    fn f32(&mut self, v: f32) {
        self.u32(v.to_bits());
    }
    fn u64(&mut self, v: u64) {
        self.u32(v as u32);
        self.u32((v >> 32) as u32);
    }
    /// one-entry blob header: count 1, name "k", type id
    fn entry_k(&mut self, type_id: u8) {
        self.u32(1);
        self.u32(1);
        self.u8(b'k');
        self.u8(type_id);
    }
    fn same(&self, bytes: &[u8], i: usize) -> bool {
        i >= self.len || bytes[i] == self.buf[i]
    }
    fn eq(&self, bytes: &[u8]) -> bool {
        if bytes.len() != self.len {
            return false;
        }
        let mut ok = true;
        let mut k = 0;
        while k < 8 && 16 * k < self.len {
            let o = 16 * k;
            ok = ok
                && self.same(bytes, o) && self.same(bytes, o + 1) && self.same(bytes, o + 2) && self.same(bytes, o + 3)
                && self.same(bytes, o + 4) && self.same(bytes, o + 5) && self.same(bytes, o + 6) && self.same(bytes, o + 7)
                && self.same(bytes, o + 8) && self.same(bytes, o + 9) && self.same(bytes, o + 10) && self.same(bytes, o + 11)
                && self.same(bytes, o + 12) && self.same(bytes, o + 13) && self.same(bytes, o + 14) && self.same(bytes, o + 15);
            k += 1;
        }
        ok
    }
}

fn feq(a: f32, b: f32) -> bool {
    a.to_bits() == b.to_bits()
}

fn okw(r: Result<(), AttributeError>) -> bool {
    let ok = r.is_ok();
    std::mem::forget(r);
    ok
}

/// truncation: the arm reader on every strict prefix of a valid value is an error, not a panic
fn trunc_err<F: Fn(&[u8]) -> Result<Variant, AttributeError>>(f: F, bytes: &[u8]) {
    let n: usize = kani::any();
    kani::assume(n < bytes.len());
    let r = f(&bytes[..n]);
    assert!(r.is_err());
    std::mem::forget(r);
}

// ---------------------------------------------------------------- type ids, entry head, empty map

fn doc_attr_id(b: u8) -> bool {
    // docs/attributes.md "Type ID" of every data type
    matches!(b, 0x02 | 0x03 | 0x04 | 0x05 | 0x06 | 0x09 | 0x0a | 0x0e | 0x0f | 0x10 | 0x11 | 0x14 | 0x15 | 0x17 | 0x19 | 0x1b | 0x1c | 0x21)
}

//@ obligation: U4.attr.ids
//@ props: C14
//@ fns: type_id::to_variant_type type_id::from_variant_type
//@ kind: complete
//@ covers: 2
//@ checks: functional
//@ note: all 256 ids: every id listed in docs/attributes.md is known; id -> type -> id is the identity; String is written under the BinaryString id 0x02
#[kani::proof]
fn u4_attr_ids() {
    let b: u8 = kani::any();
    let t = type_id::to_variant_type(b);
    // every documented id must be known; whatever is known must map back to its id
    if doc_attr_id(b) {
        assert!(t.is_some());
    }
    if let Some(t) = t {
        assert!(type_id::from_variant_type(t) == Some(b));
    }
    assert!(type_id::from_variant_type(VariantType::String) == Some(0x02));
    assert!(type_id::to_variant_type(0x02) == Some(VariantType::BinaryString));
    assert!(type_id::from_variant_type(VariantType::Ref).is_none());
    kani::cover!(t.is_some(), "known id reached");
    kani::cover!(t.is_none(), "unknown id reached");
}

//@ obligation: U7.head
//@ props: C14
//@ fns: write_attributes[entry head] read_attributes[entry head]
//@ kind: bounded
//@ bound: names of length 0, 1 and 2 (ASCII, symbolic); value type Bool
//@ checks: functional
//@ covers: 1
//@ note: name as u32 length + bytes, then the type id byte; the reader gives back the same name and type
#[kani::proof]
#[kani::unwind(8)]
fn u7_head() {
    head_case(0);
    head_case(1);
    head_case(2);
    kani::cover!(true, "end of harness reached");
}

fn head_case(n: usize) {
    // n concrete at every call site
    let c: [u8; 2] = kani::any();
    kani::assume(c[0] < 0x80 && c[1] < 0x80);
    let name = unsafe { String::from_utf8_unchecked(c[..n].to_vec()) };
    let v = Variant::Bool(true);
    let mut out: Vec<u8> = Vec::with_capacity(64);
    assert!(okw(aw_head(&name, &v, &mut out)));
    let mut b = Blob::new();
    b.u32(n as u32);
    let mut i = 0;
    while i < n {
        b.u8(c[i]);
        i += 1;
    }
    b.u8(0x03);
    assert!(b.eq(&out));
    let r = ar_head(&out[..]);
    assert!(match &r {
        Ok((k, ty)) => k.len() == n && (n < 1 || k.as_bytes()[0] == c[0]) && (n < 2 || k.as_bytes()[1] == c[1]) && *ty == VariantType::Bool,
        Err(_) => false,
    });
    std::mem::forget(r);
    std::mem::forget(out);
    std::mem::forget(name);
}

//@ obligation: U7.empty
//@ props: C14
//@ fns: write_attributes read_attributes read_exact_or_none
//@ kind: complete
//@ covers: 1
//@ checks: functional
//@ note: the REAL functions: empty map -> zero bytes; zero bytes -> empty map
#[kani::proof]
#[kani::unwind(6)]
fn u7_empty() {
    let map: BTreeMap<String, Variant> = BTreeMap::new();
    let mut out: Vec<u8> = Vec::with_capacity(64);
    assert!(okw(write_attributes(&map, &mut out)));
    assert!(out.is_empty());
    let r = read_attributes(&out[..]);
    assert!(match &r {
        Ok(m) => m.is_empty(),
        Err(_) => false,
    });
    std::mem::forget(r);
    kani::cover!(true, "end of harness reached");
}

// ---------------------------------------------------------------- fixed-size value types

//@ obligation: U7.scalars
//@ props: C14 C13
//@ fns: write_attributes[Bool,Int32,Float32,Float64,BrickColor] read_attributes[Bool,Int32,Float32,Float64,BrickColor]
//@ kind: complete
//@ covers: 1
//@ checks: functional
//@ timeout: 900
//@ note: all values of Bool, Int32, Float32 (bit patterns), Float64 (bit patterns) and every BrickColor number: layout per docs/attributes.md (little-endian), bit-identical read back
#[kani::proof]
#[kani::unwind(10)]
fn u7_scalars() {
    // Bool
    let x: bool = kani::any();
    let mut out: Vec<u8> = Vec::with_capacity(64);
    assert!(okw(aw_Bool(&Variant::Bool(x), &mut out)));
    assert!(out.len() == 1 && out[0] == if x { 1 } else { 0 });
    let any_byte = [kani::any::<u8>()];
    let r = ar_Bool(&any_byte[..]);
    assert!(match &r { Ok(Variant::Bool(y)) => *y == (any_byte[0] != 0), _ => false });
    std::mem::forget(r);
    // Int32
    let i: i32 = kani::any();
    let mut out: Vec<u8> = Vec::with_capacity(64);
    assert!(okw(aw_Int32(&Variant::Int32(i), &mut out)));
    let mut b = Blob::new();
    b.u32(i as u32);
    assert!(b.eq(&out));
    let r = ar_Int32(&out[..]);
    assert!(match &r { Ok(Variant::Int32(y)) => *y == i, _ => false });
    std::mem::forget(r);
    // Float32
    let f: f32 = kani::any();
    let mut out: Vec<u8> = Vec::with_capacity(64);
    assert!(okw(aw_Float32(&Variant::Float32(f), &mut out)));
    let mut b = Blob::new();
    b.f32(f);
    assert!(b.eq(&out));
    let r = ar_Float32(&out[..]);
    assert!(match &r { Ok(Variant::Float32(y)) => feq(*y, f), _ => false });
    std::mem::forget(r);
    // Float64
    let d: f64 = kani::any();
    let mut out: Vec<u8> = Vec::with_capacity(64);
    assert!(okw(aw_Float64(&Variant::Float64(d), &mut out)));
    let mut b = Blob::new();
    b.u64(d.to_bits());
    assert!(b.eq(&out));
    let r = ar_Float64(&out[..]);
    assert!(match &r { Ok(Variant::Float64(y)) => y.to_bits() == d.to_bits(), _ => false });
    std::mem::forget(r);
    // BrickColor
    let n: u16 = kani::any();
    if let Some(c) = BrickColor::from_number(n) {
        let mut out: Vec<u8> = Vec::with_capacity(64);
        assert!(okw(aw_BrickColor(&Variant::BrickColor(c), &mut out)));
        let mut b = Blob::new();
        b.u32(n as u32);
        assert!(b.eq(&out));
        let r = ar_BrickColor(&out[..]);
        assert!(match &r { Ok(Variant::BrickColor(y)) => *y == c, _ => false });
        std::mem::forget(r);
    }
    kani::cover!(true, "end of harness reached");
}

//@ obligation: U7.vectors
//@ props: C14 C13
//@ fns: write_attributes[UDim,UDim2,Color3,Vector2,Vector3,NumberRange,Rect] read_attributes[UDim,UDim2,Color3,Vector2,Vector3,NumberRange,Rect]
//@ kind: complete
//@ covers: 1
//@ checks: functional
//@ timeout: 900
//@ note: all component values symbolic (float bit patterns): field order and little-endian layout per docs/attributes.md, bit-identical read back
#[kani::proof]
#[kani::unwind(10)]
fn u7_vectors() {
    // UDim: scale f32, offset i32
    let u = UDim::new(kani::any(), kani::any());
    let mut out: Vec<u8> = Vec::with_capacity(64);
    assert!(okw(aw_UDim(&Variant::UDim(u), &mut out)));
    let mut b = Blob::new();
    b.f32(u.scale);
    b.u32(u.offset as u32);
    assert!(b.eq(&out));
    let r = ar_UDim(&out[..]);
    assert!(match &r { Ok(Variant::UDim(y)) => feq(y.scale, u.scale) && y.offset == u.offset, _ => false });
    std::mem::forget(r);
    // UDim2: X then Y
    let u2 = UDim2::new(UDim::new(kani::any(), kani::any()), UDim::new(kani::any(), kani::any()));
    let mut out: Vec<u8> = Vec::with_capacity(64);
    assert!(okw(aw_UDim2(&Variant::UDim2(u2), &mut out)));
    let mut b = Blob::new();
    b.f32(u2.x.scale);
    b.u32(u2.x.offset as u32);
    b.f32(u2.y.scale);
    b.u32(u2.y.offset as u32);
    assert!(b.eq(&out));
    let r = ar_UDim2(&out[..]);
    assert!(match &r { Ok(Variant::UDim2(y)) => feq(y.x.scale, u2.x.scale) && y.x.offset == u2.x.offset && feq(y.y.scale, u2.y.scale) && y.y.offset == u2.y.offset, _ => false });
    std::mem::forget(r);
    // Color3: R G B
    let c = Color3::new(kani::any(), kani::any(), kani::any());
    let mut out: Vec<u8> = Vec::with_capacity(64);
    assert!(okw(aw_Color3(&Variant::Color3(c), &mut out)));
    let mut b = Blob::new();
    b.f32(c.r);
    b.f32(c.g);
    b.f32(c.b);
    assert!(b.eq(&out));
    let r = ar_Color3(&out[..]);
    assert!(match &r { Ok(Variant::Color3(y)) => feq(y.r, c.r) && feq(y.g, c.g) && feq(y.b, c.b), _ => false });
    std::mem::forget(r);
    // Vector2
    let v2 = Vector2::new(kani::any(), kani::any());
    let mut out: Vec<u8> = Vec::with_capacity(64);
    assert!(okw(aw_Vector2(&Variant::Vector2(v2), &mut out)));
    let mut b = Blob::new();
    b.f32(v2.x);
    b.f32(v2.y);
    assert!(b.eq(&out));
    let r = ar_Vector2(&out[..]);
    assert!(match &r { Ok(Variant::Vector2(y)) => feq(y.x, v2.x) && feq(y.y, v2.y), _ => false });
    std::mem::forget(r);
    // Vector3
    let v3 = Vector3::new(kani::any(), kani::any(), kani::any());
    let mut out: Vec<u8> = Vec::with_capacity(64);
    assert!(okw(aw_Vector3(&Variant::Vector3(v3), &mut out)));
    let mut b = Blob::new();
    b.f32(v3.x);
    b.f32(v3.y);
    b.f32(v3.z);
    assert!(b.eq(&out));
    let r = ar_Vector3(&out[..]);
    assert!(match &r { Ok(Variant::Vector3(y)) => feq(y.x, v3.x) && feq(y.y, v3.y) && feq(y.z, v3.z), _ => false });
    std::mem::forget(r);
    // NumberRange: min max
    let nr = NumberRange::new(kani::any(), kani::any());
    let mut out: Vec<u8> = Vec::with_capacity(64);
    assert!(okw(aw_NumberRange(&Variant::NumberRange(nr), &mut out)));
    let mut b = Blob::new();
    b.f32(nr.min);
    b.f32(nr.max);
    assert!(b.eq(&out));
    let r = ar_NumberRange(&out[..]);
    assert!(match &r { Ok(Variant::NumberRange(y)) => feq(y.min, nr.min) && feq(y.max, nr.max), _ => false });
    std::mem::forget(r);
    // Rect: Min then Max
    let rc = Rect::new(Vector2::new(kani::any(), kani::any()), Vector2::new(kani::any(), kani::any()));
    let mut out: Vec<u8> = Vec::with_capacity(64);
    assert!(okw(aw_Rect(&Variant::Rect(rc), &mut out)));
    let mut b = Blob::new();
    b.f32(rc.min.x);
    b.f32(rc.min.y);
    b.f32(rc.max.x);
    b.f32(rc.max.y);
    assert!(b.eq(&out));
    let r = ar_Rect(&out[..]);
    assert!(match &r { Ok(Variant::Rect(y)) => feq(y.min.x, rc.min.x) && feq(y.min.y, rc.min.y) && feq(y.max.x, rc.max.x) && feq(y.max.y, rc.max.y), _ => false });
    std::mem::forget(r);
    kani::cover!(true, "end of harness reached");
}

// ---------------------------------------------------------------- truncated values (C13)

fn wire_trunc<F: Fn(&[u8]) -> Result<Variant, AttributeError>>(f: F, full: usize) {
    // full concrete at every call site: the size of a complete value of this type
    let w: [u8; 32] = kani::any();
    let n: usize = kani::any();
    kani::assume(n <= full);
    let r = f(&w[..n]);
    // whether a cut value is an error is existing behaviour; the obligation is that nothing panics
    let _ = r.is_err();
    std::mem::forget(r);
}

//@ obligation: U7.trunc.a
//@ props: C13 C14
//@ fns: read_attributes[Bool,Int32,Float32,Float64,UDim,UDim2]
//@ kind: complete
//@ covers: 1
//@ checks: functional
//@ timeout: 1200
//@ note: any bytes and any strict prefix of a value of these fixed-size types: never a panic. unwind(3): smallest bound that passes; it also bounds the recursive drop glue of io::Error that `map_err(|_| ..)` triggers
#[kani::proof]
#[kani::unwind(3)]
fn u7_trunc_a() {
    wire_trunc(|b| ar_Bool(b), 1);
    wire_trunc(|b| ar_Int32(b), 4);
    wire_trunc(|b| ar_Float32(b), 4);
    wire_trunc(|b| ar_Float64(b), 8);
    wire_trunc(|b| ar_UDim(b), 8);
    wire_trunc(|b| ar_UDim2(b), 16);
    kani::cover!(true, "end of harness reached");
}

//@ obligation: U7.trunc.b
//@ cost: heavy
//@ props: C13 C14
//@ fns: read_attributes[Color3,Vector2,Vector3,NumberRange,Rect,BrickColor]
//@ kind: complete
//@ covers: 1
//@ checks: functional
//@ timeout: 1200
//@ note: as U7.trunc.a for the remaining fixed-size types
#[kani::proof]
#[kani::unwind(3)]
fn u7_trunc_b() {
    wire_trunc(|b| ar_Color3(b), 12);
    wire_trunc(|b| ar_Vector2(b), 8);
    wire_trunc(|b| ar_Vector3(b), 12);
    wire_trunc(|b| ar_NumberRange(b), 8);
    wire_trunc(|b| ar_Rect(b), 16);
    wire_trunc(|b| ar_BrickColor(b), 4);
    kani::cover!(true, "end of harness reached");
}

// ---------------------------------------------------------------- CFrame

static mut ROTID_PLAN: Option<u8> = None;
static mut ROTID_CALLS: usize = 0;
/// Matrix3::to_basic_rotation_id replaced by its contract (see the twin in rbx_binary): the
/// harness announces a result, the stub asserts that the contract post_rotid permits it for the actual
/// argument; the writer harness runs once per permitted result.
fn rotid_planned(m: &Matrix3) -> Option<u8> {
    unsafe {
        ROTID_CALLS += 1;
        assert!(post_rotid(m, ROTID_PLAN), "planned rotation id does not satisfy the contract of to_basic_rotation_id");
        ROTID_PLAN
    }
}

fn m3_of(t: &[[i8; 3]; 3]) -> Matrix3 {
    Matrix3::new(
        Vector3::new(t[0][0] as f32, t[0][1] as f32, t[0][2] as f32),
        Vector3::new(t[1][0] as f32, t[1][1] as f32, t[1][2] as f32),
        Vector3::new(t[2][0] as f32, t[2][1] as f32, t[2][2] as f32),
    )
}
fn v3eq(a: &Vector3, b: &Vector3) -> bool {
    feq(a.x, b.x) && feq(a.y, b.y) && feq(a.z, b.z)
}

fn cframe_write_axis(snap: bool) {
    // snap concrete: whether to_basic_rotation_id snaps the exact documented rotation (both permitted)
    let id: u8 = kani::any();
    let t = spec_rotation(id);
    kani::assume(t.is_some());
    let m = m3_of(&t.unwrap());
    let pos = Vector3::new(kani::any(), kani::any(), kani::any());
    let cf = CFrame::new(pos, m);
    unsafe {
        ROTID_PLAN = if snap { Some(id) } else { None };
    }
    let mut out: Vec<u8> = Vec::with_capacity(64);
    assert!(okw(aw_CFrame(&Variant::CFrame(cf), &mut out)));
    let mut b = Blob::new();
    b.f32(pos.x);
    b.f32(pos.y);
    b.f32(pos.z);
    if snap {
        b.u8(id);
    } else {
        b.u8(0);
        for row in [&m.x, &m.y, &m.z] {
            b.f32(row.x);
            b.f32(row.y);
            b.f32(row.z);
        }
    }
    assert!(b.eq(&out));
}

//@ obligation: U7.CFrame.write
//@ props: C14
//@ fns: write_attributes[CFrame]
//@ kind: complete
//@ covers: 1
//@ checks: functional
//@ timeout: 900
//@ note: position then rotation id; an axis-aligned rotation (any of the 24 documented ones) is written as one id byte or as 00 + nine floats (both permitted); a general matrix (R00 > 2) as 00 + XVector, YVector, ZVector. Modular: to_basic_rotation_id replaced by its contract (rotid_planned), once per permitted result
#[kani::proof]
#[kani::unwind(8)]
#[kani::stub(crate::basic_types::Matrix3::to_basic_rotation_id, rotid_planned)]
fn u7_cframe_write() {
    cframe_write_axis(true);
    cframe_write_axis(false);
    // general
    let pos = Vector3::new(kani::any(), kani::any(), kani::any());
    let m = Matrix3::new(
        Vector3::new(kani::any(), kani::any(), kani::any()),
        Vector3::new(kani::any(), kani::any(), kani::any()),
        Vector3::new(kani::any(), kani::any(), kani::any()),
    );
    kani::assume(m.x.x > 2.0);
    let cf = CFrame::new(pos, m);
    unsafe {
        ROTID_PLAN = None;
    }
    let mut out: Vec<u8> = Vec::with_capacity(64);
    assert!(okw(aw_CFrame(&Variant::CFrame(cf), &mut out)));
    let mut b = Blob::new();
    b.f32(pos.x);
    b.f32(pos.y);
    b.f32(pos.z);
    b.u8(0);
    for row in [&m.x, &m.y, &m.z] {
        b.f32(row.x);
        b.f32(row.y);
        b.f32(row.z);
    }
    assert!(b.eq(&out));
    assert!(unsafe { ROTID_CALLS } == 3);
    kani::cover!(true, "end of harness reached");
}

fn cframe_read(explicit: bool) {
    // explicit concrete at every call site
    let mut w: [u8; 49] = kani::any();
    if explicit {
        w[12] = 0;
    } else {
        kani::assume(w[12] != 0);
    }
    let total = if explicit { 49 } else { 13 };
    let n: usize = kani::any();
    kani::assume(n <= total);
    let r = ar_CFrame(&w[..n]);
    let valid = explicit || spec_rotation(w[12]).is_some();
    // a documented id (or an explicit matrix) must decode; undocumented ids / truncation: no panic
    if n == total && valid {
        assert!(r.is_ok());
    }
    if let (true, Ok(Variant::CFrame(c))) = (n == total && valid, &r) {
        let f = |o: usize| f32::from_bits(u32::from_le_bytes([w[o], w[o + 1], w[o + 2], w[o + 3]]));
        assert!(feq(c.position.x, f(0)) && feq(c.position.y, f(4)) && feq(c.position.z, f(8)));
        let m = if explicit {
            Matrix3::new(Vector3::new(f(13), f(17), f(21)), Vector3::new(f(25), f(29), f(33)), Vector3::new(f(37), f(41), f(45)))
        } else {
            m3_of(&spec_rotation(w[12]).unwrap())
        };
        assert!(v3eq(&c.orientation.x, &m.x) && v3eq(&c.orientation.y, &m.y) && v3eq(&c.orientation.z, &m.z));
    }
    kani::cover!(r.is_ok(), "complete valid input reached");
    std::mem::forget(r);
}

//@ obligation: U7.CFrame.read
//@ cost: heavy
//@ props: C14 C13
//@ fns: read_attributes[CFrame]
//@ kind: complete
//@ covers: 1
//@ checks: functional
//@ timeout: 1200
//@ note: any blob value: position, then an id byte (each of the 24 documented ids -> the documented rotation) or 00 + nine floats (any bit patterns, returned as is); no truncation makes it panic
#[kani::proof]
#[kani::unwind(6)]
fn u7_cframe_read() {
    cframe_read(false);
    cframe_read(true);
}

// ---------------------------------------------------------------- variable-size value types (bounded)

//@ obligation: U7.strings
//@ props: C14
//@ fns: write_attributes[String,BinaryString] read_attributes[BinaryString]
//@ kind: bounded
//@ bound: byte strings of length 2 (contents symbolic, incl. non-UTF-8 for BinaryString)
//@ checks: functional
//@ covers: 1
//@ timeout: 1200
//@ note: String is written exactly like BinaryString and comes back as BinaryString (documented normalisation)
#[kani::proof]
#[kani::unwind(6)]
fn u7_strings() {
    let c: [u8; 2] = kani::any();
    let v = Variant::BinaryString(BinaryString::from(vec![c[0], c[1]]));
    let mut out: Vec<u8> = Vec::with_capacity(64);
    assert!(okw(aw_BinaryString(&v, &mut out)));
    let mut b = Blob::new();
    b.u32(2);
    b.u8(c[0]);
    b.u8(c[1]);
    assert!(b.eq(&out));
    let r = ar_BinaryString(&out[..]);
    assert!(match &r { Ok(Variant::BinaryString(y)) => { let y: &[u8] = y.as_ref(); y.len() == 2 && y[0] == c[0] && y[1] == c[1] } _ => false });
    std::mem::forget(r);
    std::mem::forget(v);
    if c[0] < 0x80 && c[1] < 0x80 {
        let sv = Variant::String(unsafe { String::from_utf8_unchecked(vec![c[0], c[1]]) });
        let mut out2: Vec<u8> = Vec::with_capacity(64);
        assert!(okw(aw_String(&sv, &mut out2)));
        assert!(b.eq(&out2));
        std::mem::forget(sv);
        std::mem::forget(out2);
    }
    std::mem::forget(out);
    kani::cover!(true, "end of harness reached");
}

//@ obligation: U7.EnumItem
//@ props: C14
//@ fns: write_attributes[EnumItem] read_attributes[EnumItem]
//@ kind: bounded
//@ bound: enum name of 2 ASCII characters (symbolic); value any u32
//@ checks: functional
//@ covers: 1
//@ timeout: 1200
#[kani::proof]
#[kani::unwind(6)]
fn u7_enumitem() {
    let c: [u8; 2] = kani::any();
    kani::assume(c[0] < 0x80 && c[1] < 0x80);
    let val: u32 = kani::any();
    let ev = Variant::EnumItem(EnumItem { ty: unsafe { String::from_utf8_unchecked(vec![c[0], c[1]]) }, value: val });
    let mut out: Vec<u8> = Vec::with_capacity(64);
    assert!(okw(aw_EnumItem(&ev, &mut out)));
    // enum name (String), then the value
    let mut b = Blob::new();
    b.u32(2);
    b.u8(c[0]);
    b.u8(c[1]);
    b.u32(val);
    assert!(b.eq(&out));
    let r = ar_EnumItem(&out[..]);
    assert!(match &r { Ok(Variant::EnumItem(y)) => y.value == val && y.ty.len() == 2 && y.ty.as_bytes()[0] == c[0] && y.ty.as_bytes()[1] == c[1], _ => false });
    std::mem::forget(r);
    std::mem::forget(ev);
    std::mem::forget(out);
    kani::cover!(true, "end of harness reached");
}

fn font_case(cached: bool) {
    // cached concrete at every call site
    let c: [u8; 2] = kani::any();
    kani::assume(c[0] < 0x80 && c[1] < 0x80);
    let wn: u16 = kani::any();
    let sn: u8 = kani::any();
    if let (Some(weight), Some(style)) = (FontWeight::from_u16(wn), FontStyle::from_u8(sn)) {
        let fv = Variant::Font(Font {
            family: unsafe { String::from_utf8_unchecked(vec![c[0], c[1]]) },
            weight,
            style,
            cached_face_id: if cached { Some(unsafe { String::from_utf8_unchecked(vec![c[1]]) }) } else { None },
        });
        let mut out: Vec<u8> = Vec::with_capacity(64);
        assert!(okw(aw_Font(&fv, &mut out)));
        // weight u16, style u8, family, cached face id (always present, may be empty)
        let mut b = Blob::new();
        b.u16(wn);
        b.u8(sn);
        b.u32(2);
        b.u8(c[0]);
        b.u8(c[1]);
        if cached {
            b.u32(1);
            b.u8(c[1]);
        } else {
            b.u32(0);
        }
        assert!(b.eq(&out));
        let r = ar_Font(&out[..]);
        assert!(match &r {
            Ok(Variant::Font(y)) => y.weight == weight && y.style == style && y.family.len() == 2 && y.family.as_bytes()[0] == c[0] && y.family.as_bytes()[1] == c[1]
                && match &y.cached_face_id { Some(s) => cached && s.len() == 1 && s.as_bytes()[0] == c[1], None => !cached },
            _ => false,
        });
        std::mem::forget(r);
        std::mem::forget(fv);
        std::mem::forget(out);
    }
}

//@ obligation: U7.Font
//@ props: C14
//@ fns: write_attributes[Font] read_attributes[Font]
//@ kind: bounded
//@ bound: family of 2 ASCII characters; every weight and style; cached face id absent or 1 character
//@ checks: functional
//@ covers: 1
//@ timeout: 1200
//@ note: empty cached face id string <-> None
#[kani::proof]
#[kani::unwind(6)]
fn u7_font() {
    font_case(false);
    font_case(true);
    kani::cover!(true, "end of harness reached");
}

//@ obligation: U7.sequences
//@ props: C14 C13
//@ fns: write_attributes[NumberSequence,ColorSequence] read_attributes[NumberSequence,ColorSequence]
//@ kind: bounded
//@ bound: sequences of exactly 2 keypoints and of 0 keypoints; all floats symbolic
//@ checks: functional
//@ covers: 1
//@ timeout: 1200
//@ note: keypoint = envelope, time, value (docs/attributes.md order). ColorSequence: the envelope slot is written as 0 and ignored on read (documented normalisation)
#[kani::proof]
#[kani::unwind(8)]
fn u7_sequences() {
    let k0 = NumberSequenceKeypoint::new(kani::any(), kani::any(), kani::any());
    let k1 = NumberSequenceKeypoint::new(kani::any(), kani::any(), kani::any());
    let v = Variant::NumberSequence(NumberSequence { keypoints: vec![k0, k1] });
    let mut out: Vec<u8> = Vec::with_capacity(64);
    assert!(okw(aw_NumberSequence(&v, &mut out)));
    let mut b = Blob::new();
    b.u32(2);
    for k in [&k0, &k1] {
        b.f32(k.envelope);
        b.f32(k.time);
        b.f32(k.value);
    }
    assert!(b.eq(&out));
    let r = ar_NumberSequence(&out[..]);
    assert!(match &r {
        Ok(Variant::NumberSequence(y)) => y.keypoints.len() == 2
            && feq(y.keypoints[0].time, k0.time) && feq(y.keypoints[0].value, k0.value) && feq(y.keypoints[0].envelope, k0.envelope)
            && feq(y.keypoints[1].time, k1.time) && feq(y.keypoints[1].value, k1.value) && feq(y.keypoints[1].envelope, k1.envelope),
        _ => false,
    });
    std::mem::forget(r);
    std::mem::forget(v);
    let c0 = ColorSequenceKeypoint::new(kani::any(), Color3::new(kani::any(), kani::any(), kani::any()));
    let c1 = ColorSequenceKeypoint::new(kani::any(), Color3::new(kani::any(), kani::any(), kani::any()));
    let v = Variant::ColorSequence(ColorSequence { keypoints: vec![c0, c1] });
    let mut out: Vec<u8> = Vec::with_capacity(64);
    assert!(okw(aw_ColorSequence(&v, &mut out)));
    let mut b = Blob::new();
    b.u32(2);
    for k in [&c0, &c1] {
        b.f32(0.0);
        b.f32(k.time);
        b.f32(k.color.r);
        b.f32(k.color.g);
        b.f32(k.color.b);
    }
    assert!(b.eq(&out));
    let r = ar_ColorSequence(&out[..]);
    assert!(match &r {
        Ok(Variant::ColorSequence(y)) => y.keypoints.len() == 2
            && feq(y.keypoints[0].time, c0.time) && feq(y.keypoints[0].color.r, c0.color.r) && feq(y.keypoints[0].color.g, c0.color.g) && feq(y.keypoints[0].color.b, c0.color.b)
            && feq(y.keypoints[1].time, c1.time) && feq(y.keypoints[1].color.r, c1.color.r) && feq(y.keypoints[1].color.g, c1.color.g) && feq(y.keypoints[1].color.b, c1.color.b),
        _ => false,
    });
    std::mem::forget(r);
    std::mem::forget(v);
    // empty sequences
    let v = Variant::NumberSequence(NumberSequence { keypoints: Vec::new() });
    let mut out: Vec<u8> = Vec::with_capacity(64);
    assert!(okw(aw_NumberSequence(&v, &mut out)));
    assert!(out.len() == 4 && out[0] == 0 && out[1] == 0 && out[2] == 0 && out[3] == 0);
    let r = ar_NumberSequence(&out[..]);
    assert!(match &r { Ok(Variant::NumberSequence(y)) => y.keypoints.is_empty(), _ => false });
    std::mem::forget(r);
    std::mem::forget(v);
    kani::cover!(true, "end of harness reached");
}

// ---------------------------------------------------------------- short reads / interrupted reads

/// io::Read double: delivers a fixed 4-byte source in pieces of nondeterministic size and may
/// return ErrorKind::Interrupted before any call (at most 3 times in total).
struct Choppy {
    data: [u8; 4],
    avail: usize,
    pos: usize,
    interrupts_left: u8,
}
impl Read for Choppy {
    fn read(&mut self, buf: &mut [u8]) -> io::Result<usize> {
        if self.interrupts_left > 0 && kani::any() {
            self.interrupts_left -= 1;
            return Err(io::Error::from(io::ErrorKind::Interrupted));
        }
        let remaining = self.avail - self.pos;
        if remaining == 0 || buf.is_empty() {
            return Ok(0);
        }
        let want = if buf.len() < remaining { buf.len() } else { remaining };
        let n: usize = kani::any();
        kani::assume(n >= 1 && n <= want);
        let mut i = 0;
        while i < n {
            buf[i] = self.data[self.pos + i];
            i += 1;
        }
        self.pos += n;
        Ok(n)
    }
}

//@ obligation: U7.shortread
//@ props: C13 C14
//@ fns: read_exact_or_none
//@ kind: bounded
//@ bound: 4-byte buffer; source holds 0..=4 bytes; every partition into read() calls and up to 3 Interrupted errors at any points
//@ checks: functional
//@ covers: 3
//@ timeout: 1200
//@ note: result depends only on how many bytes the source holds (0 -> Ok(false), 4 -> Ok(true) with the bytes, else Err), never on how they are delivered
#[kani::proof]
#[kani::unwind(9)]
fn u7_shortread() {
    let data: [u8; 4] = kani::any();
    let avail: usize = kani::any();
    kani::assume(avail <= 4);
    let rd = Choppy { data, avail, pos: 0, interrupts_left: 3 };
    let mut buf = [0u8; 4];
    let r = super::reader::__verif::call_read_exact_or_none(rd, &mut buf);
    match &r {
        Ok(false) => assert!(avail == 0),
        Ok(true) => assert!(avail == 4 && buf[0] == data[0] && buf[1] == data[1] && buf[2] == data[2] && buf[3] == data[3]),
        Err(_) => assert!(avail >= 1 && avail <= 3),
    }
    kani::cover!(matches!(&r, Ok(true)), "full read reached");
    kani::cover!(matches!(&r, Ok(false)), "empty source reached");
    kani::cover!(r.is_err(), "partial source reached");
    std::mem::forget(r);
}

//@ canary: yes
//@ props: C14 C13
//@ checks: functional
#[kani::proof]
#[kani::unwind(8)]
fn canary_u7() {
    let u = UDim::new(kani::any(), kani::any());
    let mut out: Vec<u8> = Vec::with_capacity(64);
    assert!(okw(aw_UDim(&Variant::UDim(u), &mut out)));
    // wrong on purpose: offset first
    assert!(out[0] == u.offset as u8);
}
