// Contracts for rbx_types/src/tags.rs (rule R1 child module).
// Blob form: tag names joined by a NUL byte; empty segments are ignored on decode.

//@ obligation: U8.tags
//@ props: C17
//@ fns: Tags::encode Tags::decode
//@ kind: bounded
//@ bound: two tags of one ASCII non-NUL character each (symbolic)
//@ checks: functional
//@ covers: 1
//@ tier: thorough
//@ timeout: 1800
#[kani::proof]
#[kani::unwind(6)]
fn u8_tags() {
    let c: [u8; 2] = kani::any();
    kani::assume(c[0] != 0 && c[0] < 0x80 && c[1] != 0 && c[1] < 0x80);
    let t = Tags::from(vec![unsafe { String::from_utf8_unchecked(vec![c[0]]) }, unsafe { String::from_utf8_unchecked(vec![c[1]]) }]);
    let blob = t.encode();
    assert!(blob.len() == 3 && blob[0] == c[0] && blob[1] == 0 && blob[2] == c[1]);
    let back = Tags::decode(&blob);
    assert!(match &back {
        Ok(b) => b.members.len() == 2 && b.members[0].as_bytes()[0] == c[0] && b.members[1].as_bytes()[0] == c[1],
        Err(_) => false,
    });
    kani::cover!(true, "end of harness reached");
    core::mem::forget(back);
    core::mem::forget(blob);
    core::mem::forget(t);
}
