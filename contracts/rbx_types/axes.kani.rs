// Contracts for rbx_types/src/axes.rs (rule R1 child module).

//@ obligation: U8.axes
//@ props: C17 C01 C03
//@ fns: Axes::from_bits Axes::bits
//@ kind: complete
//@ covers: 2
//@ checks: functional
//@ note: all 256 bytes: every byte that uses only the low three bits is accepted (docs/binary.md Axes), and bits() of an accepted value gives the byte back
#[kani::proof]
fn u8_axes() {
    let b: u8 = kani::any();
    let a = Axes::from_bits(b);
    if b < 8 {
        assert!(a.is_some());
    }
    if let Some(a) = a {
        assert!(a.bits() == b);
    }
    kani::cover!(a.is_some(), "valid bit set reached");
    kani::cover!(a.is_none(), "invalid bit set reached");
}
