// Contracts for rbx_types/src/referent.rs (rule R1 child module).
// Text form: 32 lowercase hex digits of the 128-bit value ("{:032x}"), all zeros = the null Ref.

//@ obligation: U8.ref.parse
//@ props: C17
//@ fns: Ref::from_str
//@ kind: complete
//@ covers: 2
//@ checks: functional
//@ timeout: 1200
//@ note: every string of 32 lowercase hex digits parses to the Ref holding exactly that 128-bit number (all zeros: the null Ref); with A3 ({:032x} prints exactly these digits) this is from_str(to_string(r)) == r for all 2^128 Refs
#[kani::proof]
#[kani::unwind(34)]
fn u8_ref_parse() {
    let b: [u8; 32] = kani::any();
    let mut want: u128 = 0;
    let mut i = 0;
    while i < 32 {
        let c = b[i];
        kani::assume((c >= b'0' && c <= b'9') || (c >= b'a' && c <= b'f'));
        let d = if c <= b'9' { c - b'0' } else { c - b'a' + 10 };
        want = (want << 4) | d as u128;
        i += 1;
    }
    let s = unsafe { core::str::from_utf8_unchecked(&b) };
    let r = Ref::from_str(s);
    assert!(r.is_ok());
    if let Ok(x) = &r {
        assert!(x.value() == want);
        assert!(x.is_none() == (want == 0));
    }
    kani::cover!(want == 0, "null Ref reached");
    kani::cover!(want > (1u128 << 127), "top bit set reached");
    core::mem::forget(r);
}
