// Contracts for rbx_types/src/font.rs (rule R1 child module).

//@ obligation: U8.font
//@ props: C17 C01 C13 C14
//@ fns: FontWeight::from_u16 FontWeight::as_u16 FontStyle::from_u8 FontStyle::as_u8
//@ kind: complete
//@ covers: 2
//@ note: all 65536 weights and 256 styles: never panics (all default checks on); 100..=900 step 100 and styles 0/1 are known; every known value maps back to its number
#[kani::proof]
fn u8_font() {
    let n: u16 = kani::any();
    let w = FontWeight::from_u16(n);
    // the nine documented weights must be known; whatever is known must map back to its number
    if n >= 100 && n <= 900 && n % 100 == 0 {
        assert!(w.is_some());
    }
    if let Some(w) = w {
        assert!(w.as_u16() == n);
    }
    let s: u8 = kani::any();
    let st = FontStyle::from_u8(s);
    if s <= 1 {
        assert!(st.is_some());
    }
    if let Some(st) = st {
        assert!(st.as_u8() == s);
    }
    kani::cover!(w.is_some(), "valid weight reached");
    kani::cover!(w.is_none(), "invalid weight reached");
}
