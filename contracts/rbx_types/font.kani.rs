// Contracts for rbx_types/src/font.rs (rule R1 child module).

//@ obligation: U8.font
//@ props: C17 C01 C13 C14
//@ fns: FontWeight::from_u16 FontWeight::as_u16 FontStyle::from_u8 FontStyle::as_u8
//@ kind: complete
//@ covers: 2
//@ note: all 65536 weights and 256 styles: never panics (all default checks on); Some(w) iff the number is one of 100..=900 step 100 (docs: weight "usually treated like an enum") and as_u16 gives it back; style likewise for 0/1
#[kani::proof]
fn u8_font() {
    let n: u16 = kani::any();
    let w = FontWeight::from_u16(n);
    assert!(w.is_some() == (n >= 100 && n <= 900 && n % 100 == 0));
    if let Some(w) = w {
        assert!(w.as_u16() == n);
    }
    let s: u8 = kani::any();
    let st = FontStyle::from_u8(s);
    assert!(st.is_some() == (s <= 1));
    if let Some(st) = st {
        assert!(st.as_u8() == s);
    }
    kani::cover!(w.is_some(), "valid weight reached");
    kani::cover!(w.is_none(), "invalid weight reached");
}
