// Contracts for rbx_types/src/brick_color.rs (rule R1 child module).

//@ obligation: U8.brick
//@ props: C17 C01 C14
//@ fns: BrickColor::from_number BrickColor::to_color3uint8
//@ kind: complete
//@ covers: 2
//@ checks: functional
//@ note: all 65536 numbers: from_number(n) is None or a colour whose number is n again (number <-> colour is lossless and injective); to_color3uint8 is total on every colour reached
#[kani::proof]
fn u8_brick() {
    let n: u16 = kani::any();
    let c = BrickColor::from_number(n);
    if let Some(c) = c {
        assert!(c as u16 == n);
        let rgb = c.to_color3uint8();
        let _ = rgb.r as u32 + rgb.g as u32 + rgb.b as u32;
        kani::cover!(n == 1004, "Really red reached");
    }
    kani::cover!(c.is_none(), "unassigned number reached");
}

//@ canary: yes
//@ props: C17
//@ checks: functional
#[kani::proof]
fn canary_u8_brick() {
    let n: u16 = kani::any();
    assert!(BrickColor::from_number(n).is_some());
}
