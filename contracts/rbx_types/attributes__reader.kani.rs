// Contracts support for rbx_types/src/attributes/reader.rs (rule R1 child module): gives the
// harness module in attributes/mod.rs access to the private helper under contract. The extracted
// arms (ar_*) are appended to this module by lib/arms.py (R3b).

pub(crate) fn call_read_exact_or_none<R: Read>(reader: R, buf: &mut [u8]) -> io::Result<bool> {
    read_exact_or_none(reader, buf)
}
