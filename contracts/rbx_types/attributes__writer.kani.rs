// Contracts support for rbx_types/src/attributes/writer.rs (rule R1 child module): the extracted
// arms (aw_*) are appended to this module by lib/arms.py (R3b).
