// Contracts for rbx_types/src/faces.rs (rule R1 child module).

//@ obligation: U8.faces
//@ props: C17 C01 C03
//@ fns: Faces::from_bits Faces::bits
//@ kind: complete
//@ covers: 2
//@ checks: functional
//@ note: all 256 bytes: accepted iff only the low six bits are used (docs/binary.md Faces), and bits() gives the byte back
#[kani::proof]
fn u8_faces() {
    let b: u8 = kani::any();
    let f = Faces::from_bits(b);
    assert!(f.is_some() == (b < 64));
    if let Some(f) = f {
        assert!(f.bits() == b);
    }
    kani::cover!(f.is_some(), "valid bit set reached");
    kani::cover!(f.is_none(), "invalid bit set reached");
}
