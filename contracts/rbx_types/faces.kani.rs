// Contracts for rbx_types/src/faces.rs (rule R1 child module).

//@ obligation: U8.faces
//@ props: C17 C01 C03
//@ fns: Faces::from_bits Faces::bits
//@ kind: complete
//@ covers: 2
//@ checks: functional
//@ note: all 256 bytes: every byte that uses only the low six bits is accepted (docs/binary.md Faces), and bits() of an accepted value gives the byte back
#[kani::proof]
fn u8_faces() {
    let b: u8 = kani::any();
    let f = Faces::from_bits(b);
    if b < 64 {
        assert!(f.is_some());
    }
    if let Some(f) = f {
        assert!(f.bits() == b);
    }
    kani::cover!(f.is_some(), "valid bit set reached");
    kani::cover!(f.is_none(), "invalid bit set reached");
}
