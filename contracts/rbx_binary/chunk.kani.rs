// Contracts for rbx_binary/src/chunk.rs (rule R1 child module).
// docs/binary.md "Chunks": name (4 bytes), compressed length u32 LE, uncompressed length
// u32 LE, 4 reserved zero bytes, payload. Compressed length 0 means "not compressed".

/// Read access to the bytes a ChunkBuilder has collected (private field), for the R3 arm harnesses.
pub(crate) fn buffer_of(cb: &ChunkBuilder) -> &[u8] {
    &cb.buffer
}

/// `format!` on error paths dominates CBMC cost; the message text is not part of any
/// obligation, so it is replaced by an empty string (assumption listed in the evidence).
pub(super) fn fmt_stub(_args: core::fmt::Arguments<'_>) -> String {
    String::new()
}

//@ obligation: U5.chdr
//@ props: C03 C04 C13
//@ fns: decode_chunk_header
//@ kind: complete
//@ covers: 2
//@ note: any 16 header bytes: never panics (all default checks on); reserved == 0 is accepted and the fields are name / compressed_len / len in that order, little-endian
#[kani::proof]
#[kani::unwind(6)]
#[kani::stub(alloc::fmt::format, fmt_stub)]
fn u5_chdr() {
    let b: [u8; 16] = kani::any();
    let mut rd: &[u8] = &b[..];
    let r = decode_chunk_header(&mut rd);
    let reserved = u32::from_le_bytes([b[12], b[13], b[14], b[15]]);
    // a well-formed header (reserved field zero) must be accepted; what a non-zero reserved field
    // yields is not prescribed - only that it does not panic
    if reserved == 0 {
        assert!(r.is_ok());
    }
    if let Ok(h) = &r {
        assert!(h.name[0] == b[0] && h.name[1] == b[1] && h.name[2] == b[2] && h.name[3] == b[3]);
        assert!(h.compressed_len == u32::from_le_bytes([b[4], b[5], b[6], b[7]]));
        assert!(h.len == u32::from_le_bytes([b[8], b[9], b[10], b[11]]));
        assert!(rd.is_empty());
    }
    kani::cover!(r.is_ok(), "well-formed header reached");
    kani::cover!(reserved != 0, "reserved != 0 reached");
    core::mem::forget(r);
}

//@ obligation: U5.chdr.short
//@ props: C13
//@ fns: decode_chunk_header
//@ kind: complete
//@ covers: 1
//@ note: every strict prefix (0..=15 bytes) of a chunk header is an error, not a panic
#[kani::proof]
#[kani::unwind(6)]
#[kani::stub(alloc::fmt::format, fmt_stub)]
fn u5_chdr_short() {
    let b: [u8; 16] = kani::any();
    let n: usize = kani::any();
    kani::assume(n < 16);
    let mut rd: &[u8] = &b[..n];
    let r = decode_chunk_header(&mut rd);
    assert!(r.is_err());
    kani::cover!(n == 15, "longest strict prefix reached");
    core::mem::forget(r);
}

fn dump_none_ok(n: usize) {
    // n concrete at every call site
    let p: [u8; 4] = kani::any();
    let mut cb = ChunkBuilder::new(b"PROP", CompressionType::None);
    cb.write_all(&p[..n]).unwrap();
    let mut out: Vec<u8> = Vec::new();
    cb.dump(&mut out).unwrap();
    assert!(out.len() == 16 + n);
    assert!(out[0] == b'P' && out[1] == b'R' && out[2] == b'O' && out[3] == b'P');
    assert!(out[4] == 0 && out[5] == 0 && out[6] == 0 && out[7] == 0);
    assert!(out[8] as usize == n && out[9] == 0 && out[10] == 0 && out[11] == 0);
    assert!(out[12] == 0 && out[13] == 0 && out[14] == 0 && out[15] == 0);
    let mut i = 0;
    while i < n {
        assert!(out[16 + i] == p[i]);
        i += 1;
    }
    // and the reader gives back name and payload
    let mut rd: &[u8] = &out[..];
    let c = Chunk::decode(&mut rd);
    assert!(c.is_ok());
    if let Ok(c) = &c {
        assert!(c.name[0] == b'P' && c.name[1] == b'R' && c.name[2] == b'O' && c.name[3] == b'P');
        assert!(c.data.len() == n);
        let mut i = 0;
        while i < n {
            assert!(c.data[i] == p[i]);
            i += 1;
        }
        assert!(rd.is_empty());
    }
    core::mem::forget(c);
    core::mem::forget(out);
}

//@ obligation: U5.dump.none
//@ props: C01 C03 C04
//@ fns: ChunkBuilder::dump ChunkBuilder::write Chunk::decode
//@ kind: bounded
//@ bound: uncompressed mode, payload length in {0,1,2,4}; payload bytes symbolic
//@ checks: functional
//@ timeout: 900
#[kani::proof]
#[kani::unwind(8)]
#[kani::stub(alloc::fmt::format, fmt_stub)]
fn u5_dump_none() {
    dump_none_ok(0);
    dump_none_ok(1);
    dump_none_ok(2);
    dump_none_ok(4);
}

/// io::Write double that accepts `budget` bytes and then fails.
struct FailingSink {
    budget: usize,
    written: usize,
}

impl Write for FailingSink {
    fn write(&mut self, buf: &[u8]) -> io::Result<usize> {
        if self.written + buf.len() > self.budget {
            return Err(io::Error::from(io::ErrorKind::BrokenPipe));
        }
        self.written += buf.len();
        Ok(buf.len())
    }
    fn flush(&mut self) -> io::Result<()> {
        Ok(())
    }
}

fn sinkfail(k: usize) {
    // k concrete at every call site
    let p: [u8; 3] = kani::any();
    let mut cb = ChunkBuilder::new(b"INST", CompressionType::None);
    cb.write_all(&p).unwrap();
    let mut sink = FailingSink { budget: k, written: 0 };
    let r = cb.dump(&mut sink);
    // the sink failed iff fewer than 19 bytes were accepted; dump must report exactly that
    assert!(r.is_ok() == (k >= 19));
    core::mem::forget(r);
}

//@ obligation: U5.dump.sinkfail.0
//@ cost: heavy
//@ props: C13
//@ fns: ChunkBuilder::dump
//@ kind: bounded
//@ bound: uncompressed mode, 3-byte payload (19 output bytes), sink accepts exactly 0 bytes and then fails
//@ checks: functional
//@ tier: quick
//@ note: unwind(3) is the smallest bound whose unwinding assertions pass; it also bounds the recursive drop glue of io::Error (Box<dyn Error>), which is what makes error paths expensive
#[kani::proof]
#[kani::unwind(3)]
fn u5_dump_sinkfail_0() {
    sinkfail(0);
}

//@ obligation: U5.dump.sinkfail.5
//@ props: C13
//@ fns: ChunkBuilder::dump
//@ kind: bounded
//@ bound: uncompressed mode, 3-byte payload (19 output bytes), sink accepts exactly 5 bytes and then fails
//@ checks: functional
//@ tier: thorough
//@ note: unwind(3) is the smallest bound whose unwinding assertions pass; it also bounds the recursive drop glue of io::Error (Box<dyn Error>), which is what makes error paths expensive
#[kani::proof]
#[kani::unwind(3)]
fn u5_dump_sinkfail_5() {
    sinkfail(5);
}

//@ obligation: U5.dump.sinkfail.12
//@ props: C13
//@ fns: ChunkBuilder::dump
//@ kind: bounded
//@ bound: uncompressed mode, 3-byte payload (19 output bytes), sink accepts exactly 12 bytes and then fails
//@ checks: functional
//@ tier: thorough
//@ note: unwind(3) is the smallest bound whose unwinding assertions pass; it also bounds the recursive drop glue of io::Error (Box<dyn Error>), which is what makes error paths expensive
#[kani::proof]
#[kani::unwind(3)]
fn u5_dump_sinkfail_12() {
    sinkfail(12);
}

//@ obligation: U5.dump.sinkfail.17
//@ cost: heavy
//@ props: C13
//@ fns: ChunkBuilder::dump
//@ kind: bounded
//@ bound: uncompressed mode, 3-byte payload (19 output bytes), sink accepts exactly 17 bytes and then fails
//@ checks: functional
//@ tier: quick
//@ note: unwind(3) is the smallest bound whose unwinding assertions pass; it also bounds the recursive drop glue of io::Error (Box<dyn Error>), which is what makes error paths expensive
#[kani::proof]
#[kani::unwind(3)]
fn u5_dump_sinkfail_17() {
    sinkfail(17);
}

//@ obligation: U5.dump.sinkfail.19
//@ props: C13
//@ fns: ChunkBuilder::dump
//@ kind: bounded
//@ bound: uncompressed mode, 3-byte payload (19 output bytes), sink accepts exactly 19 bytes and then fails
//@ checks: functional
//@ tier: quick
//@ note: unwind(3) is the smallest bound whose unwinding assertions pass; it also bounds the recursive drop glue of io::Error (Box<dyn Error>), which is what makes error paths expensive
#[kani::proof]
#[kani::unwind(3)]
fn u5_dump_sinkfail_19() {
    sinkfail(19);
}

fn decode_uncompressed_nopanic(total: usize, len: u8) {
    // total and len concrete at every call site: a header declaring `len` payload bytes,
    // not compressed, followed by total-16 arbitrary bytes (total < 16: truncated header)
    let mut b: [u8; 20] = kani::any();
    b[4] = 0; b[5] = 0; b[6] = 0; b[7] = 0;
    b[8] = len; b[9] = 0; b[10] = 0; b[11] = 0;
    let mut rd: &[u8] = &b[..total];
    let r = Chunk::decode(&mut rd);
    let reserved_zero = b[12] == 0 && b[13] == 0 && b[14] == 0 && b[15] == 0;
    // a complete well-formed chunk decodes; a chunk cut inside its header or payload is an error
    // (this is what makes every strict prefix of a valid file an error); non-zero reserved: no claim
    if total >= 16 && reserved_zero && total - 16 >= len as usize {
        assert!(r.is_ok());
    }
    if total < 16 || total - 16 < len as usize {
        assert!(r.is_err());
    }
    core::mem::forget(r);
}

//@ obligation: U5.decode.trunc.18_4
//@ cost: heavy
//@ props: C13 C04
//@ fns: Chunk::decode decode_chunk_header
//@ kind: bounded
//@ bound: one uncompressed chunk declaring 4 payload bytes, input cut at 18 bytes (payload 2 bytes shorter than declared); name, reserved field and payload bytes symbolic
//@ checks: functional
//@ tier: quick
//@ timeout: 900
//@ note: Ok when the header is complete, reserved is zero and the payload is complete; Err when header or payload is cut short (a strict prefix of a valid file is rejected); never a panic
#[kani::proof]
#[kani::unwind(3)]
#[kani::stub(alloc::fmt::format, fmt_stub)]
fn u5_decode_trunc_18_4() {
    decode_uncompressed_nopanic(18, 4);
}

//@ obligation: U5.decode.trunc.15_2
//@ props: C13 C04
//@ fns: Chunk::decode decode_chunk_header
//@ kind: bounded
//@ bound: one uncompressed chunk declaring 2 payload bytes, input cut at 15 bytes (header cut after 15 bytes); name, reserved field and payload bytes symbolic
//@ checks: functional
//@ tier: quick
//@ timeout: 900
//@ note: Ok when the header is complete, reserved is zero and the payload is complete; Err when header or payload is cut short (a strict prefix of a valid file is rejected); never a panic
#[kani::proof]
#[kani::unwind(3)]
#[kani::stub(alloc::fmt::format, fmt_stub)]
fn u5_decode_trunc_15_2() {
    decode_uncompressed_nopanic(15, 2);
}

//@ obligation: U5.decode.trunc.18_2
//@ cost: heavy
//@ props: C13 C04
//@ fns: Chunk::decode decode_chunk_header
//@ kind: bounded
//@ bound: one uncompressed chunk declaring 2 payload bytes, input cut at 18 bytes (exactly complete chunk); name, reserved field and payload bytes symbolic
//@ checks: functional
//@ tier: quick
//@ timeout: 900
//@ note: Ok when the header is complete, reserved is zero and the payload is complete; Err when header or payload is cut short (a strict prefix of a valid file is rejected); never a panic
#[kani::proof]
#[kani::unwind(3)]
#[kani::stub(alloc::fmt::format, fmt_stub)]
fn u5_decode_trunc_18_2() {
    decode_uncompressed_nopanic(18, 2);
}

//@ obligation: U5.decode.trunc.16_2
//@ props: C13 C04
//@ fns: Chunk::decode decode_chunk_header
//@ kind: bounded
//@ bound: one uncompressed chunk declaring 2 payload bytes, input cut at 16 bytes (payload missing entirely); name, reserved field and payload bytes symbolic
//@ checks: functional
//@ tier: thorough
//@ timeout: 900
//@ note: Ok when the header is complete, reserved is zero and the payload is complete; Err when header or payload is cut short (a strict prefix of a valid file is rejected); never a panic
#[kani::proof]
#[kani::unwind(3)]
#[kani::stub(alloc::fmt::format, fmt_stub)]
fn u5_decode_trunc_16_2() {
    decode_uncompressed_nopanic(16, 2);
}

//@ obligation: U5.decode.trunc.0_0
//@ props: C13 C04
//@ fns: Chunk::decode decode_chunk_header
//@ kind: bounded
//@ bound: one uncompressed chunk declaring 0 payload bytes, input cut at 0 bytes (empty input); name, reserved field and payload bytes symbolic
//@ checks: functional
//@ tier: thorough
//@ timeout: 900
//@ note: Ok when the header is complete, reserved is zero and the payload is complete; Err when header or payload is cut short (a strict prefix of a valid file is rejected); never a panic
#[kani::proof]
#[kani::unwind(3)]
#[kani::stub(alloc::fmt::format, fmt_stub)]
fn u5_decode_trunc_0_0() {
    decode_uncompressed_nopanic(0, 0);
}

//@ obligation: U5.decode.trunc.20_2
//@ props: C13 C04
//@ fns: Chunk::decode decode_chunk_header
//@ kind: bounded
//@ bound: one uncompressed chunk declaring 2 payload bytes, input cut at 20 bytes (trailing bytes after the chunk); name, reserved field and payload bytes symbolic
//@ checks: functional
//@ tier: thorough
//@ timeout: 900
//@ note: Ok when the header is complete, reserved is zero and the payload is complete; Err when header or payload is cut short (a strict prefix of a valid file is rejected); never a panic
#[kani::proof]
#[kani::unwind(3)]
#[kani::stub(alloc::fmt::format, fmt_stub)]
fn u5_decode_trunc_20_2() {
    decode_uncompressed_nopanic(20, 2);
}

/// Assumed contracts for the two decompressors (C code behind FFI, assumption A4): on input that is
/// not a valid compressed block they return an error. Only this error behaviour is used.
fn lz4_decompress_stub(_src: &[u8], _uncompressed_size: Option<i32>) -> io::Result<Vec<u8>> {
    Err(io::Error::from(io::ErrorKind::InvalidData))
}
fn zstd_decompress_stub(_data: &[u8], _capacity: usize) -> io::Result<Vec<u8>> {
    Err(io::Error::from(io::ErrorKind::InvalidData))
}

fn short_compressed(clen: u8) {
    // clen concrete: a chunk that claims `clen` compressed bytes (1..=4) followed by exactly that many
    let mut b: [u8; 20] = kani::any();
    b[4] = clen; b[5] = 0; b[6] = 0; b[7] = 0;
    b[12] = 0; b[13] = 0; b[14] = 0; b[15] = 0;
    let mut rd: &[u8] = &b[..16 + clen as usize];
    let r = Chunk::decode(&mut rd);
    // garbage of 1..=4 bytes is no valid LZ4/Zstd block (A4): an error, never a panic
    assert!(r.is_err());
    core::mem::forget(r);
}

//@ obligation: U5.decode.shortcomp
//@ cost: heavy
//@ props: C13 C04
//@ fns: Chunk::decode
//@ kind: bounded
//@ bound: compressed chunks whose compressed payload is 1, 2, 3 or 4 arbitrary bytes; declared uncompressed length symbolic
//@ checks: functional
//@ timeout: 1500
//@ note: the format sniffing (zstd magic) must not index past a short payload. lz4::block::decompress and zstd::bulk::decompress are replaced by assumed contracts (return Err on such input, A4)
#[kani::proof]
#[kani::unwind(5)]
#[kani::stub(alloc::fmt::format, fmt_stub)]
#[kani::stub(lz4::block::decompress, lz4_decompress_stub)]
#[kani::stub(zstd::bulk::decompress, zstd_decompress_stub)]
fn u5_decode_shortcomp() {
    short_compressed(1);
    short_compressed(2);
    short_compressed(3);
    short_compressed(4);
}

//@ canary: yes
//@ props: C01 C03 C04 C13
#[kani::proof]
#[kani::unwind(6)]
#[kani::stub(alloc::fmt::format, fmt_stub)]
fn canary_u5() {
    let b: [u8; 16] = kani::any();
    let mut rd: &[u8] = &b[..];
    let r = decode_chunk_header(&mut rd);
    assert!(r.is_ok());
    core::mem::forget(r);
}
