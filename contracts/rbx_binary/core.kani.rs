// Contracts for rbx_binary/src/core.rs — appended by rule R1 as a child module
// `#[cfg(kani)] mod __verif { use super::*; <this file> }` at the END of the file.
// Nothing in core.rs itself is rewritten.
//
// Oracle convention: every expected byte layout below is written from docs/binary.md,
// not from the code under contract.

// ---------------------------------------------------------------- U1 zigzag
// docs/binary.md "Integer transformations": "(x << 1) ^ (x >> 31)"; read as an unsigned
// number the result is 2x for x >= 0 and -2x-1 for x < 0.

//@ obligation: U1.zz32.inv
//@ props: C01 C04
//@ fns: transform_i32 untransform_i32
//@ kind: complete
#[kani::proof]
fn u1_zz32_inv() {
    let v: i32 = kani::any();
    assert!(untransform_i32(transform_i32(v)) == v);
}

//@ obligation: U1.zz32.bij
//@ props: C04
//@ fns: transform_i32 untransform_i32
//@ kind: complete
//@ note: every wire value a foreign writer may emit decodes to a distinct integer
#[kani::proof]
fn u1_zz32_bij() {
    let u: i32 = kani::any();
    assert!(transform_i32(untransform_i32(u)) == u);
}

//@ obligation: U1.zz32.spec
//@ props: C03 C04
//@ fns: transform_i32 untransform_i32
//@ kind: complete
#[kani::proof]
fn u1_zz32_spec() {
    let v: i32 = kani::any();
    let r = transform_i32(v) as u32 as i64;
    let x = v as i64;
    if x >= 0 {
        assert!(r == 2 * x);
    } else {
        assert!(r == -2 * x - 1);
    }
    // decoder side, stated independently of the encoder: even u -> u/2, odd u -> -(u+1)/2
    let u: u32 = kani::any();
    let d = untransform_i32(u as i32) as i64;
    if u % 2 == 0 {
        assert!(d == (u as i64) / 2);
    } else {
        assert!(d == -((u as i64) + 1) / 2);
    }
}

//@ obligation: U1.zz64.inv
//@ props: C01 C04
//@ fns: transform_i64 untransform_i64
//@ kind: complete
#[kani::proof]
fn u1_zz64_inv() {
    let v: i64 = kani::any();
    assert!(untransform_i64(transform_i64(v)) == v);
}

//@ obligation: U1.zz64.bij
//@ props: C04
//@ fns: transform_i64 untransform_i64
//@ kind: complete
#[kani::proof]
fn u1_zz64_bij() {
    let u: i64 = kani::any();
    assert!(transform_i64(untransform_i64(u)) == u);
}

//@ obligation: U1.zz64.spec
//@ props: C03 C04
//@ fns: transform_i64 untransform_i64
//@ kind: complete
#[kani::proof]
fn u1_zz64_spec() {
    let v: i64 = kani::any();
    let r = transform_i64(v) as u64 as i128;
    let x = v as i128;
    if x >= 0 {
        assert!(r == 2 * x);
    } else {
        assert!(r == -2 * x - 1);
    }
    let u: u64 = kani::any();
    let d = untransform_i64(u as i64) as i128;
    if u % 2 == 0 {
        assert!(d == (u as i128) / 2);
    } else {
        assert!(d == -((u as i128) + 1) / 2);
    }
}

//@ canary: yes
//@ props: C01 C03 C04
#[kani::proof]
fn canary_u1_zz() {
    let v: i32 = kani::any();
    assert!(transform_i32(v) == v);
}

// ---------------------------------------------------------------- U1 float rotation
// docs/binary.md "Float format": sign bit moved to the least significant bit
// (rotate left by one), stored big-endian.

//@ obligation: U1.f32.rot
//@ props: C01 C03 C04
//@ fns: RbxWriteExt::write_interleaved_f32_array RbxReadExt::read_interleaved_f32_array
//@ kind: complete
//@ covers: 1
//@ note: array length 1, all 2^32 bit patterns (NaN payloads, +-0, subnormals, infinities); bit-identical round trip and documented byte layout
#[kani::proof]
#[kani::unwind(6)]
fn u1_f32_rot() {
    let bits: u32 = kani::any();
    let v = f32::from_bits(bits);
    let mut out: Vec<u8> = Vec::new();
    out.write_interleaved_f32_array(core::iter::once(v)).unwrap();
    assert!(out.len() == 4);
    let expect = ((bits << 1) | (bits >> 31)).to_be_bytes();
    assert!(out[0] == expect[0] && out[1] == expect[1] && out[2] == expect[2] && out[3] == expect[3]);
    let mut rd: &[u8] = &out[..];
    let mut back = [0.0f32; 1];
    rd.read_interleaved_f32_array(&mut back).unwrap();
    assert!(back[0].to_bits() == bits);
    kani::cover!(bits == 0x7fc0_0001, "NaN payload reached");
}

// foreign encodings: any 4 bytes decode to the float whose rotated bits they are
//@ obligation: U1.f32.accept
//@ props: C04
//@ fns: RbxReadExt::read_interleaved_f32_array
//@ kind: complete
#[kani::proof]
#[kani::unwind(6)]
fn u1_f32_accept() {
    let wire: [u8; 4] = kani::any();
    let mut rd: &[u8] = &wire[..];
    let mut back = [0.0f32; 1];
    rd.read_interleaved_f32_array(&mut back).unwrap();
    let w = u32::from_be_bytes(wire);
    assert!(back[0].to_bits() == ((w >> 1) | (w << 31)));
}

// ---------------------------------------------------------------- U1 little-endian scalars

//@ obligation: U1.le.u32
//@ props: C01 C03 C04
//@ fns: RbxWriteExt::write_le_u32 RbxReadExt::read_le_u32
//@ kind: complete
#[kani::proof]
#[kani::unwind(6)]
fn u1_le_u32() {
    let v: u32 = kani::any();
    let mut out: Vec<u8> = Vec::new();
    out.write_le_u32(v).unwrap();
    assert!(out.len() == 4);
    assert!(out[0] as u32 == (v & 0xff) && out[1] as u32 == ((v >> 8) & 0xff));
    assert!(out[2] as u32 == ((v >> 16) & 0xff) && out[3] as u32 == (v >> 24));
    let mut rd: &[u8] = &out[..];
    assert!(rd.read_le_u32().unwrap() == v);
    assert!(rd.is_empty());
}

//@ obligation: U1.le.u16
//@ props: C01 C03 C04
//@ fns: RbxWriteExt::write_le_u16 RbxReadExt::read_le_u16 RbxWriteExt::write_le_i16 RbxReadExt::read_le_i16
//@ kind: complete
#[kani::proof]
#[kani::unwind(6)]
fn u1_le_u16() {
    let v: u16 = kani::any();
    let mut out: Vec<u8> = Vec::new();
    out.write_le_u16(v).unwrap();
    assert!(out.len() == 2 && out[0] as u16 == (v & 0xff) && out[1] as u16 == (v >> 8));
    let mut rd: &[u8] = &out[..];
    assert!(rd.read_le_u16().unwrap() == v);
    let s: i16 = kani::any();
    let mut out2: Vec<u8> = Vec::new();
    out2.write_le_i16(s).unwrap();
    assert!(out2.len() == 2 && out2[0] as u16 == ((s as u16) & 0xff) && out2[1] as u16 == ((s as u16) >> 8));
    let mut rd2: &[u8] = &out2[..];
    assert!(rd2.read_le_i16().unwrap() == s);
}

//@ obligation: U1.le.f32
//@ props: C01 C03 C04
//@ fns: RbxWriteExt::write_le_f32 RbxReadExt::read_le_f32
//@ kind: complete
#[kani::proof]
#[kani::unwind(6)]
fn u1_le_f32() {
    let bits: u32 = kani::any();
    let mut out: Vec<u8> = Vec::new();
    out.write_le_f32(f32::from_bits(bits)).unwrap();
    assert!(out.len() == 4);
    assert!(out[0] as u32 == (bits & 0xff) && out[1] as u32 == ((bits >> 8) & 0xff));
    assert!(out[2] as u32 == ((bits >> 16) & 0xff) && out[3] as u32 == (bits >> 24));
    let mut rd: &[u8] = &out[..];
    assert!(rd.read_le_f32().unwrap().to_bits() == bits);
}

//@ obligation: U1.le.f64
//@ props: C01 C03 C04
//@ fns: RbxWriteExt::write_le_f64 RbxReadExt::read_le_f64
//@ kind: complete
#[kani::proof]
#[kani::unwind(10)]
fn u1_le_f64() {
    let bits: u64 = kani::any();
    let mut out: Vec<u8> = Vec::new();
    out.write_le_f64(f64::from_bits(bits)).unwrap();
    assert!(out.len() == 8);
    let mut acc: u64 = 0;
    let mut i = 0;
    while i < 8 {
        acc |= (out[i] as u64) << (8 * i);
        i += 1;
    }
    assert!(acc == bits);
    let mut rd: &[u8] = &out[..];
    assert!(rd.read_le_f64().unwrap().to_bits() == bits);
}

//@ obligation: U1.be
//@ props: C01 C04
//@ fns: RbxReadExt::read_be_u32 RbxReadExt::read_be_i64
//@ kind: complete
#[kani::proof]
#[kani::unwind(10)]
fn u1_be() {
    let a: [u8; 4] = kani::any();
    let mut rd: &[u8] = &a[..];
    let v = rd.read_be_u32().unwrap();
    assert!(v == ((a[0] as u32) << 24 | (a[1] as u32) << 16 | (a[2] as u32) << 8 | a[3] as u32));
    let b: [u8; 8] = kani::any();
    let mut rd: &[u8] = &b[..];
    let w = rd.read_be_i64().unwrap() as u64;
    let mut acc: u64 = 0;
    let mut i = 0;
    while i < 8 {
        acc = (acc << 8) | b[i] as u64;
        i += 1;
    }
    assert!(w == acc);
}

//@ obligation: U1.bool
//@ props: C01 C03 C04
//@ fns: RbxWriteExt::write_bool RbxReadExt::read_bool RbxWriteExt::write_u8 RbxReadExt::read_u8
//@ kind: complete
//@ note: writer emits exactly 0/1; reader maps 00 to false and 01 to true
#[kani::proof]
#[kani::unwind(4)]
fn u1_bool() {
    let b: bool = kani::any();
    let mut out: Vec<u8> = Vec::new();
    out.write_bool(b).unwrap();
    assert!(out.len() == 1 && out[0] == if b { 1 } else { 0 });
    let mut rd: &[u8] = &out[..];
    assert!(rd.read_bool().unwrap() == b);
    let x: u8 = kani::any();
    let one = [x];
    let mut rd: &[u8] = &one[..];
    // 00 is false, 01 is true (docs/binary.md Bool); other bytes are not prescribed
    let decoded = rd.read_bool().unwrap();
    assert!(x > 1 || decoded == (x == 1));
    let mut out: Vec<u8> = Vec::new();
    out.write_u8(x).unwrap();
    assert!(out.len() == 1 && out[0] == x);
    let mut rd: &[u8] = &out[..];
    assert!(rd.read_u8().unwrap() == x);
}

//@ canary: yes
//@ props: C01 C03 C04
#[kani::proof]
#[kani::unwind(6)]
fn canary_u1_le() {
    let v: u32 = kani::any();
    let mut out: Vec<u8> = Vec::new();
    out.write_le_u32(v).unwrap();
    assert!(out[0] as u32 == (v >> 24));
}

// ---------------------------------------------------------------- U1 binary strings

//@ obligation: U1.binstr
//@ props: C01 C03 C04
//@ fns: RbxWriteExt::write_binary_string RbxReadExt::read_binary_string RbxWriteExt::write_string
//@ kind: bounded
//@ bound: byte-string length in {0,1,2,3} (contents fully symbolic, incl. non-UTF-8)
//@ checks: functional
#[kani::proof]
#[kani::unwind(8)]
fn u1_binstr() {
    binstr_ok(0);
    binstr_ok(1);
    binstr_ok(2);
    binstr_ok(3);
}

fn binstr_ok(n: usize) {
    // n is concrete at every call site
    let data: [u8; 3] = kani::any();
    let mut out: Vec<u8> = Vec::new();
    out.write_binary_string(&data[..n]).unwrap();
    assert!(out.len() == 4 + n);
    assert!(out[0] as usize == n && out[1] == 0 && out[2] == 0 && out[3] == 0);
    let mut i = 0;
    while i < n {
        assert!(out[4 + i] == data[i]);
        i += 1;
    }
    let mut rd: &[u8] = &out[..];
    let back = rd.read_binary_string().unwrap();
    assert!(back.len() == n);
    let mut i = 0;
    while i < n {
        assert!(back[i] == data[i]);
        i += 1;
    }
    assert!(rd.is_empty());
    core::mem::forget(back);
    core::mem::forget(out);
}

/// io::Read double that stands for "a source with `avail` more bytes": it hands out byte COUNTS
/// only (the destination buffer is left as it is), so lengths far beyond what CBMC could copy can
/// be explored. The first four bytes it delivers are the little-endian length prefix.
struct CountingSource {
    prefix: [u8; 4],
    avail: u64,
    consumed: u64,
}
impl Read for CountingSource {
    fn read(&mut self, buf: &mut [u8]) -> io::Result<usize> {
        let left = self.avail - self.consumed;
        let n = if (buf.len() as u64) < left { buf.len() } else { left as usize };
        if self.consumed < 4 {
            // only ever called with a 4-byte buffer here (read_exact of the prefix)
            let mut i = 0;
            while i < n && i < 4 {
                buf[i] = self.prefix[i];
                i += 1;
            }
        }
        self.consumed += n as u64;
        Ok(n)
    }
}

//@ obligation: U1.binstr.len
//@ cost: heavy
//@ props: C01 C04 C13
//@ fns: RbxReadExt::read_binary_string
//@ kind: bounded
//@ bound: declared length <= 48 KiB (every value), source holds at least that many bytes; std's read_to_end doubles its read size per iteration, so the unwind bound caps the length
//@ covers: 2
//@ checks: functional
//@ timeout: 1200
//@ note: for every declared length up to 48 KiB and a source that holds at least that many bytes: exactly 4 + length bytes are consumed and the returned buffer has exactly `length` bytes; a source that ends early is an error or a shorter buffer, never a panic. Byte contents are covered by U1.binstr (3 bytes); this obligation pushes the length bound from 3 bytes to 48 KiB using a source double that hands out byte counts only.
#[kani::proof]
#[kani::unwind(6)]
fn u1_binstr_len() {
    let length: u32 = kani::any();
    kani::assume(length <= 49152);
    let extra: u32 = kani::any();
    let src = CountingSource { prefix: length.to_le_bytes(), avail: 4 + length as u64 + extra as u64, consumed: 0 };
    let mut src = src;
    let r = (&mut src).read_binary_string();
    assert!(r.is_ok());
    if let Ok(v) = &r {
        assert!(v.len() == length as usize);
        assert!(src.consumed == 4 + length as u64);
    }
    kani::cover!(length > 40000, "a length above 40000 is reachable");
    kani::cover!(length == 0, "the empty string is reachable");
    core::mem::forget(r);
}

// ---------------------------------------------------------------- U2 interleaving on the whole real methods
// docs/binary.md "Byte interleaving": for an array of len values of N bytes, byte j of
// value i is stored at offset i + len*j.

fn interleave_ok<const N: usize>(len: usize) {
    // len is concrete at every call site
    let mut vals: Vec<[u8; N]> = Vec::with_capacity(len);
    let mut i = 0;
    while i < len {
        vals.push(kani::any());
        i += 1;
    }
    let mut out: Vec<u8> = Vec::new();
    out.write_interleaved_bytes::<N>(&vals).unwrap();
    assert!(out.len() == len * N);
    let mut i = 0;
    while i < len {
        let mut j = 0;
        while j < N {
            assert!(out[i + len * j] == vals[i][j]);
            j += 1;
        }
        i += 1;
    }
    // reader: any buffer of len*N bytes de-interleaves by the same formula
    let mut wire: Vec<u8> = Vec::with_capacity(len * N);
    let mut k = 0;
    while k < len * N {
        wire.push(kani::any());
        k += 1;
    }
    let mut back: Vec<[u8; N]> = Vec::with_capacity(len);
    let mut i = 0;
    while i < len {
        back.push([0u8; N]);
        i += 1;
    }
    let mut rd: &[u8] = &wire[..];
    rd.read_interleaved_bytes::<N>(&mut back).unwrap();
    let mut i = 0;
    while i < len {
        let mut j = 0;
        while j < N {
            assert!(back[i][j] == wire[i + len * j]);
            j += 1;
        }
        i += 1;
    }
    assert!(rd.is_empty());
    core::mem::forget(vals);
    core::mem::forget(out);
    core::mem::forget(wire);
    core::mem::forget(back);
}

//@ obligation: U2k.4
//@ props: C01 C03 C04
//@ fns: RbxWriteExt::write_interleaved_bytes RbxReadExt::read_interleaved_bytes
//@ kind: bounded
//@ bound: N = 4, array length in {0,1,2,3}; values fully symbolic
//@ checks: functional
#[kani::proof]
#[kani::unwind(14)]
fn u2k_4() {
    interleave_ok::<4>(0);
    interleave_ok::<4>(1);
    interleave_ok::<4>(2);
    interleave_ok::<4>(3);
}

//@ obligation: U2k.8
//@ props: C01 C03 C04
//@ fns: RbxWriteExt::write_interleaved_bytes RbxReadExt::read_interleaved_bytes
//@ kind: bounded
//@ bound: N = 8, array length in {1,2,3}; values fully symbolic
//@ checks: functional
//@ tier: thorough
#[kani::proof]
#[kani::unwind(26)]
fn u2k_8() {
    interleave_ok::<8>(1);
    interleave_ok::<8>(2);
    interleave_ok::<8>(3);
}

//@ obligation: U2k.16
//@ props: C01 C03 C04
//@ fns: RbxWriteExt::write_interleaved_bytes RbxReadExt::read_interleaved_bytes
//@ kind: bounded
//@ bound: N = 16, array length in {1,2}; values fully symbolic
//@ checks: functional
//@ tier: thorough
#[kani::proof]
#[kani::unwind(34)]
fn u2k_16() {
    interleave_ok::<16>(1);
    interleave_ok::<16>(2);
}

//@ canary: yes
//@ props: C01 C03 C04
//@ checks: functional
#[kani::proof]
#[kani::unwind(14)]
fn canary_u2k() {
    let vals: [[u8; 4]; 2] = kani::any();
    let mut out: Vec<u8> = Vec::new();
    out.write_interleaved_bytes::<4>(&vals).unwrap();
    // wrong stride on purpose (N*i + j is the non-interleaved layout)
    assert!(out[4 * 1 + 0] == vals[1][0]);
}

// ---------------------------------------------------------------- U2 typed arrays (len 2: stride errors show)

//@ obligation: U2.i32arr
//@ props: C01 C03 C04
//@ fns: RbxWriteExt::write_interleaved_i32_array RbxReadExt::read_interleaved_i32_array
//@ kind: bounded
//@ bound: array length 2; both values fully symbolic
//@ checks: functional
#[kani::proof]
#[kani::unwind(12)]
fn u2_i32arr() {
    let a: i32 = kani::any();
    let b: i32 = kani::any();
    let vals = [a, b];
    let mut out: Vec<u8> = Vec::new();
    out.write_interleaved_i32_array(vals.iter().copied()).unwrap();
    assert!(out.len() == 8);
    // layout from the document: zigzag (2x / -2x-1), big-endian, interleaved
    let za = (if a >= 0 { 2 * (a as i64) } else { -2 * (a as i64) - 1 }) as u32;
    let zb = (if b >= 0 { 2 * (b as i64) } else { -2 * (b as i64) - 1 }) as u32;
    let mut j = 0;
    while j < 4 {
        assert!(out[0 + 2 * j] as u32 == (za >> (8 * (3 - j))) & 0xff);
        assert!(out[1 + 2 * j] as u32 == (zb >> (8 * (3 - j))) & 0xff);
        j += 1;
    }
    let mut rd: &[u8] = &out[..];
    let mut back = [0i32; 2];
    rd.read_interleaved_i32_array(&mut back).unwrap();
    assert!(back[0] == a && back[1] == b);
    core::mem::forget(out);
}

//@ obligation: U2.u32arr
//@ props: C01 C03 C04
//@ fns: RbxWriteExt::write_interleaved_u32_array RbxReadExt::read_interleaved_u32_array
//@ kind: bounded
//@ bound: array length 2; both values fully symbolic
//@ checks: functional
#[kani::proof]
#[kani::unwind(12)]
fn u2_u32arr() {
    let a: u32 = kani::any();
    let b: u32 = kani::any();
    let vals = [a, b];
    let mut out: Vec<u8> = Vec::new();
    out.write_interleaved_u32_array(&vals).unwrap();
    assert!(out.len() == 8);
    let mut j = 0;
    while j < 4 {
        assert!(out[0 + 2 * j] as u32 == (a >> (8 * (3 - j))) & 0xff);
        assert!(out[1 + 2 * j] as u32 == (b >> (8 * (3 - j))) & 0xff);
        j += 1;
    }
    let mut rd: &[u8] = &out[..];
    let mut back = [0u32; 2];
    rd.read_interleaved_u32_array(&mut back).unwrap();
    assert!(back[0] == a && back[1] == b);
    core::mem::forget(out);
}

//@ obligation: U2.f32arr
//@ props: C01 C03 C04
//@ fns: RbxWriteExt::write_interleaved_f32_array RbxReadExt::read_interleaved_f32_array
//@ kind: bounded
//@ bound: array length 2; both values fully symbolic (all bit patterns)
//@ checks: functional
#[kani::proof]
#[kani::unwind(12)]
fn u2_f32arr() {
    let a: u32 = kani::any();
    let b: u32 = kani::any();
    let vals = [f32::from_bits(a), f32::from_bits(b)];
    let mut out: Vec<u8> = Vec::new();
    out.write_interleaved_f32_array(vals.iter().copied()).unwrap();
    assert!(out.len() == 8);
    let ra = (a << 1) | (a >> 31);
    let rb = (b << 1) | (b >> 31);
    let mut j = 0;
    while j < 4 {
        assert!(out[0 + 2 * j] as u32 == (ra >> (8 * (3 - j))) & 0xff);
        assert!(out[1 + 2 * j] as u32 == (rb >> (8 * (3 - j))) & 0xff);
        j += 1;
    }
    let mut rd: &[u8] = &out[..];
    let mut back = [0f32; 2];
    rd.read_interleaved_f32_array(&mut back).unwrap();
    assert!(back[0].to_bits() == a && back[1].to_bits() == b);
    core::mem::forget(out);
}

//@ obligation: U2.i64arr
//@ props: C01 C03 C04
//@ fns: RbxWriteExt::write_interleaved_i64_array RbxReadExt::read_interleaved_i64_array
//@ kind: bounded
//@ bound: array length 2; both values fully symbolic
//@ checks: functional
#[kani::proof]
#[kani::unwind(20)]
fn u2_i64arr() {
    let a: i64 = kani::any();
    let b: i64 = kani::any();
    let vals = [a, b];
    let mut out: Vec<u8> = Vec::new();
    out.write_interleaved_i64_array(vals.iter().copied()).unwrap();
    assert!(out.len() == 16);
    let za = (if a >= 0 { 2 * (a as i128) } else { -2 * (a as i128) - 1 }) as u64;
    let zb = (if b >= 0 { 2 * (b as i128) } else { -2 * (b as i128) - 1 }) as u64;
    let mut j = 0;
    while j < 8 {
        assert!(out[0 + 2 * j] as u64 == (za >> (8 * (7 - j))) & 0xff);
        assert!(out[1 + 2 * j] as u64 == (zb >> (8 * (7 - j))) & 0xff);
        j += 1;
    }
    let mut rd: &[u8] = &out[..];
    let mut back = [0i64; 2];
    rd.read_interleaved_i64_array(&mut back).unwrap();
    assert!(back[0] == a && back[1] == b);
    core::mem::forget(out);
}

// docs/binary.md "Referent": arrays of referents store the first value as is and every
// later one as the difference to its predecessor, then as interleaved zigzag i32.
//@ obligation: U2.ref
//@ props: C01 C03 C04
//@ fns: RbxWriteExt::write_referent_array RbxReadExt::read_referent_array
//@ kind: bounded
//@ bound: array length 3; values in [-1, 2^30] (the range generate_referents can produce; wider deltas overflow i32)
//@ checks: functional
#[kani::proof]
#[kani::unwind(14)]
fn u2_ref() {
    let a: i32 = kani::any();
    let b: i32 = kani::any();
    let c: i32 = kani::any();
    kani::assume(a >= -1 && a <= (1 << 30));
    kani::assume(b >= -1 && b <= (1 << 30));
    kani::assume(c >= -1 && c <= (1 << 30));
    let vals = [a, b, c];
    let mut out: Vec<u8> = Vec::new();
    out.write_referent_array(vals.iter().copied()).unwrap();
    assert!(out.len() == 12);
    // independent decode of the wire: de-interleave, big-endian, un-zigzag, accumulate
    let mut acc: i64 = 0;
    let mut i = 0;
    while i < 3 {
        let u = (out[i] as u32) << 24 | (out[i + 3] as u32) << 16 | (out[i + 6] as u32) << 8 | out[i + 9] as u32;
        let d: i64 = if u % 2 == 0 { (u as i64) / 2 } else { -((u as i64) + 1) / 2 };
        acc += d;
        assert!(acc == vals[i] as i64);
        i += 1;
    }
    let mut rd: &[u8] = &out[..];
    let mut back = [0i32; 3];
    rd.read_referent_array(&mut back).unwrap();
    assert!(back[0] == a && back[1] == b && back[2] == c);
    core::mem::forget(out);
}

//@ canary: yes
//@ props: C01 C03 C04
//@ checks: functional
#[kani::proof]
#[kani::unwind(14)]
fn canary_u2_ref() {
    let a: i32 = kani::any();
    let b: i32 = kani::any();
    kani::assume(a >= -1 && a <= (1 << 30));
    kani::assume(b >= -1 && b <= (1 << 30));
    let vals = [a, b];
    let mut out: Vec<u8> = Vec::new();
    out.write_referent_array(vals.iter().copied()).unwrap();
    let mut rd: &[u8] = &out[..];
    let mut back = [0i32; 2];
    rd.read_interleaved_i32_array(&mut back).unwrap();
    assert!(back[1] == b); // wrong: the wire holds the delta
}

// ---------------------------------------------------------------- U1 readers never panic (C13)

//@ obligation: U1.read.nopanic
//@ props: C13
//@ fns: RbxReadExt::read_le_u32 RbxReadExt::read_le_u16 RbxReadExt::read_le_i16 RbxReadExt::read_le_f32 RbxReadExt::read_le_f64 RbxReadExt::read_be_u32 RbxReadExt::read_be_i64 RbxReadExt::read_u8 RbxReadExt::read_bool
//@ kind: complete
//@ covers: 2
//@ note: every fixed-size reader on any remaining input of 0..=8 bytes returns Ok or Err (all default checks on); Err exactly when fewer bytes remain than the value needs
#[kani::proof]
#[kani::unwind(10)]
fn u1_read_nopanic() {
    let buf: [u8; 8] = kani::any();
    let n: usize = kani::any();
    kani::assume(n <= 8);
    let which: u8 = kani::any();
    let mut rd: &[u8] = &buf[..n];
    let (ok, need) = match which {
        0 => (rd.read_le_u32().is_ok(), 4),
        1 => (rd.read_le_u16().is_ok(), 2),
        2 => (rd.read_le_i16().is_ok(), 2),
        3 => (rd.read_le_f32().is_ok(), 4),
        4 => (rd.read_le_f64().is_ok(), 8),
        5 => (rd.read_be_u32().is_ok(), 4),
        6 => (rd.read_be_i64().is_ok(), 8),
        7 => (rd.read_u8().is_ok(), 1),
        _ => (rd.read_bool().is_ok(), 1),
    };
    assert!(ok == (n >= need));
    kani::cover!(ok, "a successful read is reachable");
    kani::cover!(!ok, "a short read is reachable");
}
