// Contracts for rbx_binary/src/types.rs (rule R1 child module).

/// Wire type ids of docs/binary.md ("Type ID `0x..`" under each data type), minus 0x1d
/// (Bytecode: documented, the README marks it unimplemented) plus 0x21
/// (SecurityCapabilities: implemented, missing from the document - recorded in DESIGN.md).
fn doc_type_id(b: u8) -> bool {
    matches!(b, 0x01..=0x0e | 0x10 | 0x12..=0x1c | 0x1e | 0x1f | 0x20 | 0x21 | 0x22)
}

//@ obligation: U4.bin.ids
//@ props: C01 C03 C04
//@ fns: Type::try_from
//@ kind: complete
//@ covers: 2
//@ checks: functional
//@ note: all 256 bytes: every id listed in docs/binary.md (and implemented) is accepted, nothing undocumented is accepted, and then `t as u8 == b` (the discriminant written by the serializer is the documented id); Err values are forgotten
#[kani::proof]
fn u4_bin_ids() {
    let b: u8 = kani::any();
    let r = Type::try_from(b);
    // every id under contract must be recognised; an accepted byte must be a documented id
    // (0x1d Bytecode is documented and may legitimately become implemented) and the discriminant
    // - the byte the serializer writes - must be that id
    if doc_type_id(b) {
        assert!(r.is_ok());
    }
    if let Ok(t) = &r {
        assert!(*t as u8 == b && (doc_type_id(b) || b == 0x1d));
    }
    kani::cover!(r.is_ok(), "known id reached");
    kani::cover!(r.is_err(), "unknown id reached");
    core::mem::forget(r);
}

//@ obligation: U4.bin.default
//@ props: C01 C04
//@ fns: Type::to_default_rbx_type Type::from_rbx_type
//@ kind: complete
//@ covers: 1
//@ checks: functional
//@ note: for every wire type t: from_rbx_type(to_default_rbx_type(t)) == t, i.e. a property unknown to the database is re-encoded under the wire type it was read from; String maps to BinaryString
#[kani::proof]
fn u4_bin_default() {
    let b: u8 = kani::any();
    let r = Type::try_from(b);
    if let Ok(t) = &r {
        let v = t.to_default_rbx_type();
        assert!(v.is_some());
        if let Some(v) = v {
            assert!(Type::from_rbx_type(v) == Some(*t));
            assert!((*t == Type::String) == (v == VariantType::BinaryString));
        }
        kani::cover!(*t == Type::Content, "last type reached");
    }
    core::mem::forget(r);
}

//@ obligation: U4.bin.stringlike
//@ props: C01 C03
//@ fns: Type::from_rbx_type
//@ kind: complete
//@ checks: functional
//@ note: the six string-like variant types (String, BinaryString, ContentId, Tags, Attributes, MaterialColors - the ones the serializer's String arm accepts) share wire type 0x01 (docs/binary.md String); widening sources keep their own wire type
#[kani::proof]
fn u4_bin_stringlike() {
    assert!(Type::from_rbx_type(VariantType::String) == Some(Type::String));
    assert!(Type::from_rbx_type(VariantType::BinaryString) == Some(Type::String));
    assert!(Type::from_rbx_type(VariantType::ContentId) == Some(Type::String));
    assert!(Type::from_rbx_type(VariantType::Tags) == Some(Type::String));
    assert!(Type::from_rbx_type(VariantType::MaterialColors) == Some(Type::String));
    assert!(Type::from_rbx_type(VariantType::Attributes) == Some(Type::String));
    assert!(Type::from_rbx_type(VariantType::Int32) == Some(Type::Int32));
    assert!(Type::from_rbx_type(VariantType::Int64) == Some(Type::Int64));
    assert!(Type::from_rbx_type(VariantType::Float32) == Some(Type::Float32));
    assert!(Type::from_rbx_type(VariantType::Float64) == Some(Type::Float64));
    assert!(Type::from_rbx_type(VariantType::Color3uint8) == Some(Type::Color3uint8));
}

//@ canary: yes
//@ props: C01 C03 C04
//@ checks: functional
#[kani::proof]
fn canary_u4() {
    let b: u8 = kani::any();
    let r = Type::try_from(b);
    assert!(r.is_ok());
    core::mem::forget(r);
}
