// Contracts for rbx_binary/src/deserializer/header.rs (rule R1 child module).
// docs/binary.md "File Header": magic "<roblox!", signature 89 ff 0d 0a 1a 0a, version u16 LE
// (0), class count u32 LE, instance count u32 LE, 8 reserved zero bytes.

const DOC_MAGIC: [u8; 14] = [0x3c, 0x72, 0x6f, 0x62, 0x6c, 0x6f, 0x78, 0x21, 0x89, 0xff, 0x0d, 0x0a, 0x1a, 0x0a];

//@ obligation: U5.hdr.accept
//@ props: C03 C04 C13
//@ fns: FileHeader::decode
//@ kind: complete
//@ covers: 2
//@ note: any 32 bytes: never panics; magic + signature + version 0 + 8 zero bytes is accepted, and an accepted header carries the LE words at offsets 16 and 20 as its two counts
#[kani::proof]
#[kani::unwind(16)]
fn u5_hdr_accept() {
    let b: [u8; 32] = kani::any();
    let r = FileHeader::decode(&b[..]);
    let mut good = b[14] == 0 && b[15] == 0;
    let mut i = 0;
    while i < 14 {
        good = good && b[i] == DOC_MAGIC[i];
        i += 1;
    }
    let mut i = 24;
    while i < 32 {
        good = good && b[i] == 0;
        i += 1;
    }
    // a well-formed header must be accepted with its two counts; rejecting malformed ones is
    // existing behaviour, not prescribed by a property - only that nothing panics
    if good {
        assert!(r.is_ok());
    }
    if let Ok(h) = &r {
        assert!(h.num_types == u32::from_le_bytes([b[16], b[17], b[18], b[19]]));
        assert!(h.num_instances == u32::from_le_bytes([b[20], b[21], b[22], b[23]]));
    }
    kani::cover!(r.is_ok(), "valid header reached");
    kani::cover!(!good, "invalid header reached");
    core::mem::forget(r);
}

//@ obligation: U5.hdr.short
//@ props: C13
//@ fns: FileHeader::decode
//@ kind: complete
//@ covers: 1
//@ note: every strict prefix (0..=31 bytes) of a file header is an error, not a panic
#[kani::proof]
#[kani::unwind(16)]
fn u5_hdr_short() {
    let b: [u8; 32] = kani::any();
    let n: usize = kani::any();
    kani::assume(n < 32);
    let r = FileHeader::decode(&b[..n]);
    assert!(r.is_err());
    kani::cover!(n == 31, "longest strict prefix reached");
    core::mem::forget(r);
}

//@ canary: yes
//@ props: C03 C04 C13
#[kani::proof]
#[kani::unwind(16)]
fn canary_u5_hdr() {
    let b: [u8; 32] = kani::any();
    let r = FileHeader::decode(&b[..]);
    assert!(r.is_err());
    core::mem::forget(r);
}
