// R3 arm obligations (U3.*) — harness module at the crate root of rbx_binary.
// enc_<T> / dec_<T>_<V> are the verbatim arm bodies of serialize_properties /
// decode_prop_chunk extracted by lib/arms.py into serializer::state::__verif and
// deserializer::state::__verif. Every expected layout below (`Spec`) is an independent
// encoder written from docs/binary.md.

use crate::chunk::__verif::buffer_of;
use crate::chunk::ChunkBuilder;
use crate::deserializer::__verif_dec::*;
use crate::serializer::__verif_enc::*;
use crate::serializer::CompressionType;
use rbx_dom_weak::types::*;
use std::borrow::Cow;

// ---------------------------------------------------------------- independent encoder (docs/binary.md)

pub(crate) struct Spec {
    pub buf: [u8; 192],
    pub len: usize,
}

impl Spec {
    pub fn new() -> Self {
        Spec { buf: [0; 192], len: 0 }
    }
    pub fn u8(&mut self, b: u8) {
        self.buf[self.len] = b;
        self.len += 1;
    }
    pub fn le_u16(&mut self, v: u16) {
        self.u8(v as u8);
        self.u8((v >> 8) as u8);
    }
    pub fn le_u32(&mut self, v: u32) {
        self.u8(v as u8);
        self.u8((v >> 8) as u8);
        self.u8((v >> 16) as u8);
        self.u8((v >> 24) as u8);
    }
    pub fn le_f32(&mut self, v: f32) {
        self.le_u32(v.to_bits());
    }
    pub fn le_u64(&mut self, v: u64) {
        self.le_u32(v as u32);
        self.le_u32((v >> 32) as u32);
    }
    /// "Byte interleaving": N values of 4 bytes, big-endian: all first bytes, all second bytes, ..
    pub fn interleaved_be32<const N: usize>(&mut self, v: [u32; N]) {
        let mut j = 0;
        while j < 4 {
            let mut i = 0;
            while i < N {
                self.u8((v[i] >> (8 * (3 - j))) as u8);
                i += 1;
            }
            j += 1;
        }
    }
    pub fn interleaved_be64<const N: usize>(&mut self, v: [u64; N]) {
        let mut j = 0;
        while j < 8 {
            let mut i = 0;
            while i < N {
                self.u8((v[i] >> (8 * (7 - j))) as u8);
                i += 1;
            }
            j += 1;
        }
    }
    /// "Roblox float format": sign bit moved to the least significant bit
    pub fn rbx_f32<const N: usize>(&mut self, v: [f32; N]) {
        let mut w = [0u32; N];
        let mut i = 0;
        while i < N {
            let b = v[i].to_bits();
            w[i] = (b << 1) | (b >> 31);
            i += 1;
        }
        self.interleaved_be32(w);
    }
    /// "Integer transformations": 2x for x >= 0, -2x-1 for x < 0
    pub fn zz_i32<const N: usize>(&mut self, v: [i32; N]) {
        let mut w = [0u32; N];
        let mut i = 0;
        while i < N {
            let x = v[i] as i64;
            w[i] = (if x >= 0 { 2 * x } else { -2 * x - 1 }) as u32;
            i += 1;
        }
        self.interleaved_be32(w);
    }
    pub fn zz_i64<const N: usize>(&mut self, v: [i64; N]) {
        let mut w = [0u64; N];
        let mut i = 0;
        while i < N {
            let x = v[i] as i128;
            w[i] = (if x >= 0 { 2 * x } else { -2 * x - 1 }) as u64;
            i += 1;
        }
        self.interleaved_be64(w);
    }
    fn same(&self, bytes: &[u8], i: usize) -> bool {
        i >= self.len || bytes[i] == self.buf[i]
    }
    /// byte-for-byte equality; 16 bytes per iteration so that harnesses need a small unwind bound
    /// (a large bound multiplies the cost of the recursive drop glue of the error types)
    pub fn eq(&self, bytes: &[u8]) -> bool {
        if bytes.len() != self.len {
            return false;
        }
        let mut ok = true;
        let mut k = 0;
        while k < 12 && 16 * k < self.len {
            let o = 16 * k;
            ok = ok
                && self.same(bytes, o) && self.same(bytes, o + 1) && self.same(bytes, o + 2) && self.same(bytes, o + 3)
                && self.same(bytes, o + 4) && self.same(bytes, o + 5) && self.same(bytes, o + 6) && self.same(bytes, o + 7)
                && self.same(bytes, o + 8) && self.same(bytes, o + 9) && self.same(bytes, o + 10) && self.same(bytes, o + 11)
                && self.same(bytes, o + 12) && self.same(bytes, o + 13) && self.same(bytes, o + 14) && self.same(bytes, o + 15);
            k += 1;
        }
        ok
    }
}

/// Column feeder: stands for the `values` iterator of serialize_properties. Values are stack
/// locals borrowed for the whole harness: nothing owned, nothing dropped. (A by-value
/// `[_; 2]::into_iter()` of `(usize, Cow<Variant>)` trips an internal Kani assertion.)
pub(crate) struct Col<'a> {
    vals: [&'a Variant; 2],
    n: usize,
    i: usize,
}
impl<'a> Iterator for Col<'a> {
    type Item = (usize, Cow<'a, Variant>);
    fn next(&mut self) -> Option<Self::Item> {
        if self.i < self.n {
            let k = self.i;
            self.i += 1;
            Some((k, Cow::Borrowed(self.vals[k])))
        } else {
            None
        }
    }
    fn size_hint(&self) -> (usize, Option<usize>) {
        let r = self.n - self.i;
        (r, Some(r))
    }
}
impl<'a> ExactSizeIterator for Col<'a> {}
fn col1<'a>(a: &'a Variant) -> Col<'a> {
    Col { vals: [a, a], n: 1, i: 0 }
}
fn col2<'a>(a: &'a Variant, b: &'a Variant) -> Col<'a> {
    Col { vals: [a, b], n: 2, i: 0 }
}

/// Independent reader written from docs/binary.md (inverse of `Spec`).
pub(crate) struct De<'a> {
    pub b: &'a [u8],
    pub pos: usize,
}
impl<'a> De<'a> {
    pub fn new(b: &'a [u8]) -> Self {
        De { b, pos: 0 }
    }
    pub fn u8(&mut self) -> u8 {
        let v = self.b[self.pos];
        self.pos += 1;
        v
    }
    pub fn le_u16(&mut self) -> u16 {
        let a = self.u8() as u16;
        let b = self.u8() as u16;
        a | (b << 8)
    }
    pub fn le_u32(&mut self) -> u32 {
        let a = self.le_u16() as u32;
        let b = self.le_u16() as u32;
        a | (b << 16)
    }
    pub fn le_f32(&mut self) -> f32 {
        f32::from_bits(self.le_u32())
    }
    pub fn le_u64(&mut self) -> u64 {
        let a = self.le_u32() as u64;
        let b = self.le_u32() as u64;
        a | (b << 32)
    }
    pub fn interleaved_be32<const N: usize>(&mut self) -> [u32; N] {
        let mut out = [0u32; N];
        let mut j = 0;
        while j < 4 {
            let mut i = 0;
            while i < N {
                out[i] = (out[i] << 8) | self.b[self.pos + j * N + i] as u32;
                i += 1;
            }
            j += 1;
        }
        self.pos += 4 * N;
        out
    }
    pub fn interleaved_be64<const N: usize>(&mut self) -> [u64; N] {
        let mut out = [0u64; N];
        let mut j = 0;
        while j < 8 {
            let mut i = 0;
            while i < N {
                out[i] = (out[i] << 8) | self.b[self.pos + j * N + i] as u64;
                i += 1;
            }
            j += 1;
        }
        self.pos += 8 * N;
        out
    }
    pub fn rbx_f32<const N: usize>(&mut self) -> [f32; N] {
        let w = self.interleaved_be32::<N>();
        let mut out = [0f32; N];
        let mut i = 0;
        while i < N {
            out[i] = f32::from_bits((w[i] >> 1) | (w[i] << 31));
            i += 1;
        }
        out
    }
    pub fn zz_i32<const N: usize>(&mut self) -> [i32; N] {
        let w = self.interleaved_be32::<N>();
        let mut out = [0i32; N];
        let mut i = 0;
        while i < N {
            let u = w[i] as i64;
            out[i] = (if u % 2 == 0 { u / 2 } else { -(u + 1) / 2 }) as i32;
            i += 1;
        }
        out
    }
    pub fn zz_i64<const N: usize>(&mut self) -> [i64; N] {
        let w = self.interleaved_be64::<N>();
        let mut out = [0i64; N];
        let mut i = 0;
        while i < N {
            let u = w[i] as i128;
            out[i] = (if u % 2 == 0 { u / 2 } else { -(u + 1) / 2 }) as i64;
            i += 1;
        }
        out
    }
}

macro_rules! out {
    ($shim:expr, $i:expr, $p:pat => $e:expr) => {
        match &$shim.instances_by_ref.inst[$i].out {
            Some($p) => $e,
            _ => false,
        }
    };
}

fn newcb() -> ChunkBuilder {
    ChunkBuilder::new(b"PROP", CompressionType::None)
}
fn once_each(shim: &DecShim) -> bool {
    shim.instances_by_ref.inst[0].count == 1 && shim.instances_by_ref.inst[1].count == 1
}
fn untouched(shim: &DecShim) -> bool {
    shim.instances_by_ref.inst[0].count == 0 && shim.instances_by_ref.inst[1].count == 0
}
fn feq(a: f32, b: f32) -> bool {
    a.to_bits() == b.to_bits()
}
fn f32any() -> f32 {
    kani::any()
}

fn v3any() -> Vector3 {
    Vector3::new(kani::any(), kani::any(), kani::any())
}
fn v3eq(a: &Vector3, b: &Vector3) -> bool {
    a.x.to_bits() == b.x.to_bits() && a.y.to_bits() == b.y.to_bits() && a.z.to_bits() == b.z.to_bits()
}
fn shim2() -> DecShim {
    DecShim::new([0, 1], 2, Ref::none(), Ref::none())
}
const TI2: DecTypeInfo<2> = DecTypeInfo { type_id: 0, referents: [0, 1], type_name: "" };

// =====================================================================================
// U3.<T>       encode arm: bytes == layout from docs/binary.md; decode(encode(vs)) == vs   (C01, C03)
// U3.<T>.wire  decode arm on ANY wire bytes: complete input -> the values an independent
//              reader written from the document gets; truncated input -> Err, no panic      (C04, C13)
// Column length 2 throughout (stride and ordering mistakes show at 2), values fully symbolic.
// =====================================================================================

// ---------------------------------------------------------------- Bool
//@ obligation: U3.Bool
//@ props: C01 C03
//@ fns: serialize_properties[Type::Bool] decode_prop_chunk[Type::Bool/VariantType::Bool]
//@ kind: bounded
//@ bound: column of 2 values
//@ checks: functional
//@ covers: 1
#[kani::proof]
#[kani::unwind(8)]
fn u3_bool() {
    let a: bool = kani::any();
    let b: bool = kani::any();
    let (v0, v1) = (Variant::Bool(a), Variant::Bool(b));
    let mut cb = newcb();
    assert!(enc_Bool(col2(&v0, &v1), &mut cb, &EncShim::empty()).is_ok());
    let bytes = buffer_of(&cb);
    let mut s = Spec::new();
    s.u8(if a { 1 } else { 0 });
    s.u8(if b { 1 } else { 0 });
    assert!(s.eq(bytes));
    let mut shim = shim2();
    assert!(dec_Bool_Bool(bytes, &TI2, &mut shim).is_ok());
    assert!(out!(shim, 0, Variant::Bool(x) => *x == a) && out!(shim, 1, Variant::Bool(x) => *x == b));
    assert!(once_each(&shim));
    kani::cover!(true, "end of harness reached");
    std::mem::forget(shim);
    std::mem::forget(cb);
}

//@ obligation: U3.Bool.wire
//@ props: C04 C13
//@ fns: decode_prop_chunk[Type::Bool/VariantType::Bool]
//@ kind: bounded
//@ bound: column of 2 values, wire length 0..=2
//@ checks: functional
//@ covers: 2
#[kani::proof]
#[kani::unwind(8)]
fn u3_bool_wire() {
    let w: [u8; 2] = kani::any();
    let n: usize = kani::any();
    kani::assume(n <= 2);
    let mut shim = shim2();
    let r = dec_Bool_Bool(&w[..n], &TI2, &mut shim);
    // complete input must decode; what a truncated column yields (error or not) is not prescribed - only that it does not panic
    if n == 2 {
        assert!(r.is_ok());
    }
    if n == 2 {
        // 00 is false, 01 is true (docs/binary.md); other bytes are not prescribed
        assert!(out!(shim, 0, Variant::Bool(x) => w[0] > 1 || *x == (w[0] == 1)) && out!(shim, 1, Variant::Bool(x) => w[1] > 1 || *x == (w[1] == 1)));
        assert!(once_each(&shim));
    }
    kani::cover!(r.is_ok(), "complete input reached");
    kani::cover!(n == 0, "truncated input reached");
    std::mem::forget(shim);
}

// ---------------------------------------------------------------- Int32 (+ widening to Int64)
//@ obligation: U3.Int32
//@ props: C01 C03
//@ fns: serialize_properties[Type::Int32] decode_prop_chunk[Type::Int32/VariantType::Int32]
//@ kind: bounded
//@ bound: column of 2 values
//@ checks: functional
//@ covers: 1
#[kani::proof]
#[kani::unwind(12)]
fn u3_int32() {
    let a: i32 = kani::any();
    let b: i32 = kani::any();
    let (v0, v1) = (Variant::Int32(a), Variant::Int32(b));
    let mut cb = newcb();
    assert!(enc_Int32(col2(&v0, &v1), &mut cb, &EncShim::empty()).is_ok());
    let bytes = buffer_of(&cb);
    let mut s = Spec::new();
    s.zz_i32([a, b]);
    assert!(s.eq(bytes));
    let mut shim = shim2();
    assert!(dec_Int32_Int32(bytes, &TI2, &mut shim).is_ok());
    assert!(out!(shim, 0, Variant::Int32(x) => *x == a) && out!(shim, 1, Variant::Int32(x) => *x == b));
    assert!(once_each(&shim));
    kani::cover!(true, "end of harness reached");
    std::mem::forget(shim);
    std::mem::forget(cb);
}

//@ obligation: U3.Int32.wire
//@ cost: heavy
//@ props: C04 C13
//@ fns: decode_prop_chunk[Type::Int32/VariantType::Int32] decode_prop_chunk[Type::Int32/VariantType::Int64]
//@ kind: bounded
//@ bound: column of 2 values, wire length 0..=8; both the Int32 and the Int64-declared (widening) arm
//@ checks: functional
//@ covers: 2
//@ note: the widening arm must give exactly the i64 with the same numeric value for every 32-bit wire word
#[kani::proof]
#[kani::unwind(12)]
fn u3_int32_wire() {
    let w: [u8; 8] = kani::any();
    let n: usize = kani::any();
    kani::assume(n <= 8);
    let mut shim = shim2();
    let r = dec_Int32_Int32(&w[..n], &TI2, &mut shim);
    let mut shim64 = shim2();
    let r64 = dec_Int32_Int64(&w[..n], &TI2, &mut shim64);
    if n == 8 {
        assert!(r.is_ok() && r64.is_ok());
    }
    if n == 8 {
        let e = De::new(&w).zz_i32::<2>();
        assert!(out!(shim, 0, Variant::Int32(x) => *x == e[0]) && out!(shim, 1, Variant::Int32(x) => *x == e[1]));
        assert!(out!(shim64, 0, Variant::Int64(x) => *x == e[0] as i64) && out!(shim64, 1, Variant::Int64(x) => *x == e[1] as i64));
        assert!(once_each(&shim) && once_each(&shim64));
    }
    kani::cover!(r.is_ok(), "complete input reached");
    kani::cover!(n == 0, "truncated input reached");
    std::mem::forget(shim);
    std::mem::forget(shim64);
}

// ---------------------------------------------------------------- Float32 (+ widening to Float64)
//@ obligation: U3.Float32
//@ props: C01 C03
//@ fns: serialize_properties[Type::Float32] decode_prop_chunk[Type::Float32/VariantType::Float32]
//@ kind: bounded
//@ bound: column of 2 values (all bit patterns)
//@ checks: functional
//@ covers: 1
#[kani::proof]
#[kani::unwind(12)]
fn u3_float32() {
    let a = f32any();
    let b = f32any();
    let (v0, v1) = (Variant::Float32(a), Variant::Float32(b));
    let mut cb = newcb();
    assert!(enc_Float32(col2(&v0, &v1), &mut cb, &EncShim::empty()).is_ok());
    let bytes = buffer_of(&cb);
    let mut s = Spec::new();
    s.rbx_f32([a, b]);
    assert!(s.eq(bytes));
    let mut shim = shim2();
    assert!(dec_Float32_Float32(bytes, &TI2, &mut shim).is_ok());
    assert!(out!(shim, 0, Variant::Float32(x) => feq(*x, a)) && out!(shim, 1, Variant::Float32(x) => feq(*x, b)));
    assert!(once_each(&shim));
    kani::cover!(true, "end of harness reached");
    std::mem::forget(shim);
    std::mem::forget(cb);
}

//@ obligation: U3.Float32.wire
//@ cost: heavy
//@ props: C04 C13
//@ fns: decode_prop_chunk[Type::Float32/VariantType::Float32] decode_prop_chunk[Type::Float32/VariantType::Float64]
//@ kind: bounded
//@ bound: column of 2 values, wire length 0..=8; both the Float32 and the Float64-declared (widening) arm
//@ checks: functional
//@ covers: 2
//@ note: widened exactly: the f64 converts back to the same f32 bits and equals the f32 numerically (NaN stays NaN)
#[kani::proof]
#[kani::unwind(12)]
fn u3_float32_wire() {
    let w: [u8; 8] = kani::any();
    let n: usize = kani::any();
    kani::assume(n <= 8);
    let mut shim = shim2();
    let r = dec_Float32_Float32(&w[..n], &TI2, &mut shim);
    let mut shim64 = shim2();
    let r64 = dec_Float32_Float64(&w[..n], &TI2, &mut shim64);
    if n == 8 {
        assert!(r.is_ok() && r64.is_ok());
    }
    if n == 8 {
        let e = De::new(&w).rbx_f32::<2>();
        assert!(out!(shim, 0, Variant::Float32(x) => feq(*x, e[0])) && out!(shim, 1, Variant::Float32(x) => feq(*x, e[1])));
        assert!(out!(shim64, 0, Variant::Float64(x) => if e[0].is_nan() { x.is_nan() } else { *x == e[0] as f64 && feq(*x as f32, e[0]) }));
        assert!(out!(shim64, 1, Variant::Float64(x) => if e[1].is_nan() { x.is_nan() } else { *x == e[1] as f64 && feq(*x as f32, e[1]) }));
        assert!(once_each(&shim) && once_each(&shim64));
    }
    kani::cover!(r.is_ok(), "complete input reached");
    kani::cover!(n == 0, "truncated input reached");
    std::mem::forget(shim);
    std::mem::forget(shim64);
}

// ---------------------------------------------------------------- Float64
//@ obligation: U3.Float64
//@ props: C01 C03
//@ fns: serialize_properties[Type::Float64] decode_prop_chunk[Type::Float64/VariantType::Float64]
//@ kind: bounded
//@ bound: column of 2 values (all bit patterns); second harness value given as Float32 (accepted by the encoder, written widened)
//@ checks: functional
//@ covers: 1
#[kani::proof]
#[kani::unwind(10)]
fn u3_float64() {
    let a: f64 = kani::any();
    let b: f64 = kani::any();
    let (v0, v1) = (Variant::Float64(a), Variant::Float64(b));
    let mut cb = newcb();
    assert!(enc_Float64(col2(&v0, &v1), &mut cb, &EncShim::empty()).is_ok());
    let bytes = buffer_of(&cb);
    let mut s = Spec::new();
    s.le_u64(a.to_bits());
    s.le_u64(b.to_bits());
    assert!(s.eq(bytes));
    let mut shim = shim2();
    assert!(dec_Float64_Float64(bytes, &TI2, &mut shim).is_ok());
    assert!(out!(shim, 0, Variant::Float64(x) => x.to_bits() == a.to_bits()) && out!(shim, 1, Variant::Float64(x) => x.to_bits() == b.to_bits()));
    assert!(once_each(&shim));
    kani::cover!(true, "end of harness reached");
    std::mem::forget(shim);
    std::mem::forget(cb);
}

//@ obligation: U3.Float64.wire
//@ props: C04 C13
//@ fns: decode_prop_chunk[Type::Float64/VariantType::Float64]
//@ kind: bounded
//@ bound: column of 2 values, wire length 0..=16
//@ checks: functional
//@ covers: 2
#[kani::proof]
#[kani::unwind(10)]
fn u3_float64_wire() {
    let w: [u8; 16] = kani::any();
    let n: usize = kani::any();
    kani::assume(n <= 16);
    let mut shim = shim2();
    let r = dec_Float64_Float64(&w[..n], &TI2, &mut shim);
    // complete input must decode; what a truncated column yields (error or not) is not prescribed - only that it does not panic
    if n == 16 {
        assert!(r.is_ok());
    }
    if n == 16 {
        let mut d = De::new(&w);
        let e0 = d.le_u64();
        let e1 = d.le_u64();
        assert!(out!(shim, 0, Variant::Float64(x) => x.to_bits() == e0) && out!(shim, 1, Variant::Float64(x) => x.to_bits() == e1));
        assert!(once_each(&shim));
    }
    kani::cover!(r.is_ok(), "complete input reached");
    kani::cover!(n == 0, "truncated input reached");
    std::mem::forget(shim);
}

// ---------------------------------------------------------------- UDim / UDim2
//@ obligation: U3.UDim
//@ props: C01 C03
//@ fns: serialize_properties[Type::UDim] decode_prop_chunk[Type::UDim/VariantType::UDim]
//@ kind: bounded
//@ bound: column of 2 values
//@ checks: functional
//@ covers: 1
#[kani::proof]
#[kani::unwind(10)]
fn u3_udim() {
    let a = UDim::new(f32any(), kani::any());
    let b = UDim::new(f32any(), kani::any());
    let (v0, v1) = (Variant::UDim(a), Variant::UDim(b));
    let mut cb = newcb();
    assert!(enc_UDim(col2(&v0, &v1), &mut cb, &EncShim::empty()).is_ok());
    let bytes = buffer_of(&cb);
    let mut s = Spec::new();
    s.rbx_f32([a.scale, b.scale]);
    s.zz_i32([a.offset, b.offset]);
    assert!(s.eq(bytes));
    let mut shim = shim2();
    assert!(dec_UDim_UDim(bytes, &TI2, &mut shim).is_ok());
    assert!(out!(shim, 0, Variant::UDim(x) => feq(x.scale, a.scale) && x.offset == a.offset));
    assert!(out!(shim, 1, Variant::UDim(x) => feq(x.scale, b.scale) && x.offset == b.offset));
    assert!(once_each(&shim));
    kani::cover!(true, "end of harness reached");
    std::mem::forget(shim);
    std::mem::forget(cb);
}

//@ obligation: U3.UDim.wire
//@ cost: heavy
//@ props: C04 C13
//@ fns: decode_prop_chunk[Type::UDim/VariantType::UDim]
//@ kind: bounded
//@ bound: column of 2 values, wire length 0..=16
//@ checks: functional
//@ covers: 2
#[kani::proof]
#[kani::unwind(10)]
fn u3_udim_wire() {
    let w: [u8; 16] = kani::any();
    let n: usize = kani::any();
    kani::assume(n <= 16);
    let mut shim = shim2();
    let r = dec_UDim_UDim(&w[..n], &TI2, &mut shim);
    // complete input must decode; what a truncated column yields (error or not) is not prescribed - only that it does not panic
    if n == 16 {
        assert!(r.is_ok());
    }
    if n == 16 {
        let mut d = De::new(&w);
        let sc = d.rbx_f32::<2>();
        let of = d.zz_i32::<2>();
        assert!(out!(shim, 0, Variant::UDim(x) => feq(x.scale, sc[0]) && x.offset == of[0]));
        assert!(out!(shim, 1, Variant::UDim(x) => feq(x.scale, sc[1]) && x.offset == of[1]));
        assert!(once_each(&shim));
    }
    kani::cover!(r.is_ok(), "complete input reached");
    kani::cover!(n == 0, "truncated input reached");
    std::mem::forget(shim);
}

//@ obligation: U3.UDim2
//@ cost: heavy
//@ props: C01 C03
//@ fns: serialize_properties[Type::UDim2] decode_prop_chunk[Type::UDim2/VariantType::UDim2]
//@ kind: bounded
//@ bound: column of 2 values
//@ checks: functional
//@ covers: 1
#[kani::proof]
#[kani::unwind(10)]
fn u3_udim2() {
    let a = UDim2::new(UDim::new(f32any(), kani::any()), UDim::new(f32any(), kani::any()));
    let b = UDim2::new(UDim::new(f32any(), kani::any()), UDim::new(f32any(), kani::any()));
    let (v0, v1) = (Variant::UDim2(a), Variant::UDim2(b));
    let mut cb = newcb();
    assert!(enc_UDim2(col2(&v0, &v1), &mut cb, &EncShim::empty()).is_ok());
    let bytes = buffer_of(&cb);
    // order X.Scale, Y.Scale, X.Offset, Y.Offset
    let mut s = Spec::new();
    s.rbx_f32([a.x.scale, b.x.scale]);
    s.rbx_f32([a.y.scale, b.y.scale]);
    s.zz_i32([a.x.offset, b.x.offset]);
    s.zz_i32([a.y.offset, b.y.offset]);
    assert!(s.eq(bytes));
    let mut shim = shim2();
    assert!(dec_UDim2_UDim2(bytes, &TI2, &mut shim).is_ok());
    assert!(out!(shim, 0, Variant::UDim2(x) => feq(x.x.scale, a.x.scale) && feq(x.y.scale, a.y.scale) && x.x.offset == a.x.offset && x.y.offset == a.y.offset));
    assert!(out!(shim, 1, Variant::UDim2(x) => feq(x.x.scale, b.x.scale) && feq(x.y.scale, b.y.scale) && x.x.offset == b.x.offset && x.y.offset == b.y.offset));
    assert!(once_each(&shim));
    kani::cover!(true, "end of harness reached");
    std::mem::forget(shim);
    std::mem::forget(cb);
}

//@ obligation: U3.UDim2.wire
//@ cost: heavy
//@ props: C04 C13
//@ fns: decode_prop_chunk[Type::UDim2/VariantType::UDim2]
//@ kind: bounded
//@ bound: column of 2 values, wire length 0..=32
//@ checks: functional
//@ covers: 2
#[kani::proof]
#[kani::unwind(10)]
fn u3_udim2_wire() {
    let w: [u8; 32] = kani::any();
    let n: usize = kani::any();
    kani::assume(n <= 32);
    let mut shim = shim2();
    let r = dec_UDim2_UDim2(&w[..n], &TI2, &mut shim);
    // complete input must decode; what a truncated column yields (error or not) is not prescribed - only that it does not panic
    if n == 32 {
        assert!(r.is_ok());
    }
    if n == 32 {
        let mut d = De::new(&w);
        let xs = d.rbx_f32::<2>();
        let ys = d.rbx_f32::<2>();
        let xo = d.zz_i32::<2>();
        let yo = d.zz_i32::<2>();
        assert!(out!(shim, 0, Variant::UDim2(x) => feq(x.x.scale, xs[0]) && feq(x.y.scale, ys[0]) && x.x.offset == xo[0] && x.y.offset == yo[0]));
        assert!(out!(shim, 1, Variant::UDim2(x) => feq(x.x.scale, xs[1]) && feq(x.y.scale, ys[1]) && x.x.offset == xo[1] && x.y.offset == yo[1]));
        assert!(once_each(&shim));
    }
    kani::cover!(r.is_ok(), "complete input reached");
    kani::cover!(n == 0, "truncated input reached");
    std::mem::forget(shim);
}

// ---------------------------------------------------------------- Ray
//@ obligation: U3.Ray
//@ props: C01 C03
//@ fns: serialize_properties[Type::Ray] decode_prop_chunk[Type::Ray/VariantType::Ray]
//@ kind: bounded
//@ bound: column of 2 values; all 12 floats fully symbolic (bit patterns)
//@ checks: functional
//@ covers: 1
#[kani::proof]
#[kani::unwind(8)]
fn u3_ray() {
    let a = Ray::new(v3any(), v3any());
    let b = Ray::new(v3any(), v3any());
    let (v0, v1) = (Variant::Ray(a), Variant::Ray(b));
    let mut cb = newcb();
    assert!(enc_Ray(col2(&v0, &v1), &mut cb, &EncShim::empty()).is_ok());
    let bytes = buffer_of(&cb);
    // six little-endian f32 per ray, origin then direction, rays in sequence
    let mut s = Spec::new();
    for ray in [&a, &b] {
        s.le_f32(ray.origin.x);
        s.le_f32(ray.origin.y);
        s.le_f32(ray.origin.z);
        s.le_f32(ray.direction.x);
        s.le_f32(ray.direction.y);
        s.le_f32(ray.direction.z);
    }
    assert!(s.eq(bytes));
    let mut shim = shim2();
    assert!(dec_Ray_Ray(bytes, &TI2, &mut shim).is_ok());
    assert!(out!(shim, 0, Variant::Ray(x) => v3eq(&x.origin, &a.origin) && v3eq(&x.direction, &a.direction)));
    assert!(out!(shim, 1, Variant::Ray(x) => v3eq(&x.origin, &b.origin) && v3eq(&x.direction, &b.direction)));
    assert!(once_each(&shim));
    kani::cover!(true, "end of harness reached");
    std::mem::forget(shim);
    std::mem::forget(cb);
}

//@ obligation: U3.Ray.wire
//@ props: C04 C13
//@ fns: decode_prop_chunk[Type::Ray/VariantType::Ray]
//@ kind: bounded
//@ bound: column of 2 values, wire length 0..=48
//@ checks: functional
//@ covers: 2
#[kani::proof]
#[kani::unwind(8)]
fn u3_ray_wire() {
    let w: [u8; 48] = kani::any();
    let n: usize = kani::any();
    kani::assume(n <= 48);
    let mut shim = shim2();
    let r = dec_Ray_Ray(&w[..n], &TI2, &mut shim);
    // complete input must decode; what a truncated column yields (error or not) is not prescribed - only that it does not panic
    if n == 48 {
        assert!(r.is_ok());
    }
    if n == 48 {
        let mut d = De::new(&w);
        let mut k = 0;
        while k < 2 {
            let o = Vector3::new(d.le_f32(), d.le_f32(), d.le_f32());
            let dir = Vector3::new(d.le_f32(), d.le_f32(), d.le_f32());
            assert!(out!(shim, k, Variant::Ray(x) => v3eq(&x.origin, &o) && v3eq(&x.direction, &dir)));
            k += 1;
        }
        assert!(once_each(&shim));
    }
    kani::cover!(r.is_ok(), "complete input reached");
    kani::cover!(n == 0, "truncated input reached");
    std::mem::forget(shim);
}

// ---------------------------------------------------------------- Faces / Axes
//@ obligation: U3.Faces
//@ props: C01 C03 C04 C13
//@ fns: serialize_properties[Type::Faces] decode_prop_chunk[Type::Faces/VariantType::Faces]
//@ kind: bounded
//@ bound: column of 2 values; all 64 bit sets; wire: any 2 bytes / truncated
//@ checks: functional
//@ covers: 2
#[kani::proof]
#[kani::unwind(8)]
#[kani::stub(alloc::fmt::format, crate::chunk::__verif::fmt_stub)]
fn u3_faces() {
    let w: [u8; 2] = kani::any();
    if let (Some(a), Some(b)) = (Faces::from_bits(w[0]), Faces::from_bits(w[1])) {
        let (v0, v1) = (Variant::Faces(a), Variant::Faces(b));
        let mut cb = newcb();
        assert!(enc_Faces(col2(&v0, &v1), &mut cb, &EncShim::empty()).is_ok());
        let bytes = buffer_of(&cb);
        assert!(bytes.len() == 2 && bytes[0] == w[0] && bytes[1] == w[1]);
        std::mem::forget(cb);
    }
    let n: usize = kani::any();
    kani::assume(n <= 2);
    let mut shim = shim2();
    let r = dec_Faces_Faces(&w[..n], &TI2, &mut shim);
    // canonical bit sets must decode; bytes using the two meaningless high bits are not prescribed
    if n == 2 && w[0] < 64 && w[1] < 64 {
        assert!(r.is_ok());
    }
    if r.is_ok() && n == 2 && w[0] < 64 && w[1] < 64 {
        assert!(out!(shim, 0, Variant::Faces(x) => x.bits() == w[0]) && out!(shim, 1, Variant::Faces(x) => x.bits() == w[1]));
        assert!(once_each(&shim));
    }
    kani::cover!(r.is_ok(), "complete valid input reached");
    kani::cover!(n == 0, "truncated input reached");
    std::mem::forget(shim);
}

//@ obligation: U3.Axes
//@ props: C01 C03 C04 C13
//@ fns: serialize_properties[Type::Axes] decode_prop_chunk[Type::Axes/VariantType::Axes]
//@ kind: bounded
//@ bound: column of 2 values; all 8 bit sets; wire: any 2 bytes / truncated
//@ checks: functional
//@ covers: 2
#[kani::proof]
#[kani::unwind(8)]
#[kani::stub(alloc::fmt::format, crate::chunk::__verif::fmt_stub)]
fn u3_axes() {
    let w: [u8; 2] = kani::any();
    if let (Some(a), Some(b)) = (Axes::from_bits(w[0]), Axes::from_bits(w[1])) {
        let (v0, v1) = (Variant::Axes(a), Variant::Axes(b));
        let mut cb = newcb();
        assert!(enc_Axes(col2(&v0, &v1), &mut cb, &EncShim::empty()).is_ok());
        let bytes = buffer_of(&cb);
        assert!(bytes.len() == 2 && bytes[0] == w[0] && bytes[1] == w[1]);
        std::mem::forget(cb);
    }
    let n: usize = kani::any();
    kani::assume(n <= 2);
    let mut shim = shim2();
    let r = dec_Axes_Axes(&w[..n], &TI2, &mut shim);
    if n == 2 && w[0] < 8 && w[1] < 8 {
        assert!(r.is_ok());
    }
    if r.is_ok() && n == 2 && w[0] < 8 && w[1] < 8 {
        assert!(out!(shim, 0, Variant::Axes(x) => x.bits() == w[0]) && out!(shim, 1, Variant::Axes(x) => x.bits() == w[1]));
        assert!(once_each(&shim));
    }
    kani::cover!(r.is_ok(), "complete valid input reached");
    kani::cover!(n == 0, "truncated input reached");
    std::mem::forget(shim);
}

// ---------------------------------------------------------------- BrickColor
//@ obligation: U3.BrickColor
//@ cost: heavy
//@ props: C01 C03
//@ fns: serialize_properties[Type::BrickColor] decode_prop_chunk[Type::BrickColor/VariantType::BrickColor]
//@ kind: bounded
//@ bound: column of 2 values; every BrickColor number
//@ checks: functional
//@ covers: 1
#[kani::proof]
#[kani::unwind(12)]
#[kani::stub(alloc::fmt::format, crate::chunk::__verif::fmt_stub)]
fn u3_brickcolor() {
    let na: u16 = kani::any();
    let nb: u16 = kani::any();
    if let (Some(a), Some(b)) = (BrickColor::from_number(na), BrickColor::from_number(nb)) {
        let (v0, v1) = (Variant::BrickColor(a), Variant::BrickColor(b));
        let mut cb = newcb();
        assert!(enc_BrickColor(col2(&v0, &v1), &mut cb, &EncShim::empty()).is_ok());
        let bytes = buffer_of(&cb);
        // untransformed big-endian u32 holding the colour's Number, interleaved
        let mut s = Spec::new();
        s.interleaved_be32([na as u32, nb as u32]);
        assert!(s.eq(bytes));
        let mut shim = shim2();
        assert!(dec_BrickColor_BrickColor(bytes, &TI2, &mut shim).is_ok());
        assert!(out!(shim, 0, Variant::BrickColor(x) => *x == a) && out!(shim, 1, Variant::BrickColor(x) => *x == b));
        assert!(once_each(&shim));
        kani::cover!(true, "end of harness reached");
        std::mem::forget(shim);
        std::mem::forget(cb);
    }
}

//@ obligation: U3.BrickColor.wire
//@ cost: heavy
//@ props: C04 C13
//@ fns: decode_prop_chunk[Type::BrickColor/VariantType::BrickColor]
//@ kind: bounded
//@ bound: column of 2 values, any 8 wire bytes (all u32 pairs) / truncated
//@ checks: functional
//@ covers: 2
//@ timeout: 1200
//@ note: Ok exactly when both big-endian words are numbers of the BrickColor table (values above u16::MAX are rejected, not truncated); then the colours with those numbers come back; everything else is an error, never a panic
#[kani::proof]
#[kani::unwind(6)]
#[kani::stub(alloc::fmt::format, crate::chunk::__verif::fmt_stub)]
fn u3_brickcolor_wire() {
    let w: [u8; 8] = kani::any();
    let n: usize = kani::any();
    kani::assume(n <= 8);
    let mut shim = shim2();
    let r = dec_BrickColor_BrickColor(&w[..n], &TI2, &mut shim);
    let e = De::new(&w).interleaved_be32::<2>();
    let c0 = if e[0] <= 0xffff { BrickColor::from_number(e[0] as u16) } else { None };
    let c1 = if e[1] <= 0xffff { BrickColor::from_number(e[1] as u16) } else { None };
    // documented colour numbers must decode; what happens to other numbers is not prescribed
    if n == 8 && c0.is_some() && c1.is_some() {
        assert!(r.is_ok());
    }
    if r.is_ok() && n == 8 && c0.is_some() && c1.is_some() {
        assert!(out!(shim, 0, Variant::BrickColor(x) => Some(*x) == c0) && out!(shim, 1, Variant::BrickColor(x) => Some(*x) == c1));
        assert!(once_each(&shim));
    }
    kani::cover!(r.is_ok(), "two valid colours reached");
    kani::cover!(n == 0, "truncated input reached");
    std::mem::forget(shim);
}

// ---------------------------------------------------------------- Color3 / Vector2 / Vector3
//@ obligation: U3.Color3
//@ cost: heavy
//@ props: C01 C03
//@ fns: serialize_properties[Type::Color3] decode_prop_chunk[Type::Color3/VariantType::Color3]
//@ kind: bounded
//@ bound: column of 2 values
//@ checks: functional
//@ covers: 1
#[kani::proof]
#[kani::unwind(10)]
fn u3_color3() {
    let a = Color3::new(f32any(), f32any(), f32any());
    let b = Color3::new(f32any(), f32any(), f32any());
    let (v0, v1) = (Variant::Color3(a), Variant::Color3(b));
    let mut cb = newcb();
    assert!(enc_Color3(col2(&v0, &v1), &mut cb, &EncShim::empty()).is_ok());
    let bytes = buffer_of(&cb);
    let mut s = Spec::new();
    s.rbx_f32([a.r, b.r]);
    s.rbx_f32([a.g, b.g]);
    s.rbx_f32([a.b, b.b]);
    assert!(s.eq(bytes));
    let mut shim = shim2();
    assert!(dec_Color3_Color3(bytes, &TI2, &mut shim).is_ok());
    assert!(out!(shim, 0, Variant::Color3(x) => feq(x.r, a.r) && feq(x.g, a.g) && feq(x.b, a.b)));
    assert!(out!(shim, 1, Variant::Color3(x) => feq(x.r, b.r) && feq(x.g, b.g) && feq(x.b, b.b)));
    assert!(once_each(&shim));
    kani::cover!(true, "end of harness reached");
    std::mem::forget(shim);
    std::mem::forget(cb);
}

//@ obligation: U3.Vector2
//@ cost: heavy
//@ props: C01 C03
//@ fns: serialize_properties[Type::Vector2] decode_prop_chunk[Type::Vector2/VariantType::Vector2]
//@ kind: bounded
//@ bound: column of 2 values
//@ checks: functional
//@ covers: 1
#[kani::proof]
#[kani::unwind(10)]
fn u3_vector2() {
    let a = Vector2::new(f32any(), f32any());
    let b = Vector2::new(f32any(), f32any());
    let (v0, v1) = (Variant::Vector2(a), Variant::Vector2(b));
    let mut cb = newcb();
    assert!(enc_Vector2(col2(&v0, &v1), &mut cb, &EncShim::empty()).is_ok());
    let bytes = buffer_of(&cb);
    let mut s = Spec::new();
    s.rbx_f32([a.x, b.x]);
    s.rbx_f32([a.y, b.y]);
    assert!(s.eq(bytes));
    let mut shim = shim2();
    assert!(dec_Vector2_Vector2(bytes, &TI2, &mut shim).is_ok());
    assert!(out!(shim, 0, Variant::Vector2(x) => feq(x.x, a.x) && feq(x.y, a.y)));
    assert!(out!(shim, 1, Variant::Vector2(x) => feq(x.x, b.x) && feq(x.y, b.y)));
    assert!(once_each(&shim));
    kani::cover!(true, "end of harness reached");
    std::mem::forget(shim);
    std::mem::forget(cb);
}

//@ obligation: U3.Vector3
//@ cost: heavy
//@ props: C01 C03
//@ fns: serialize_properties[Type::Vector3] decode_prop_chunk[Type::Vector3/VariantType::Vector3]
//@ kind: bounded
//@ bound: column of 2 values
//@ checks: functional
//@ covers: 1
#[kani::proof]
#[kani::unwind(10)]
fn u3_vector3() {
    let a = v3any();
    let b = v3any();
    let (v0, v1) = (Variant::Vector3(a), Variant::Vector3(b));
    let mut cb = newcb();
    assert!(enc_Vector3(col2(&v0, &v1), &mut cb, &EncShim::empty()).is_ok());
    let bytes = buffer_of(&cb);
    let mut s = Spec::new();
    s.rbx_f32([a.x, b.x]);
    s.rbx_f32([a.y, b.y]);
    s.rbx_f32([a.z, b.z]);
    assert!(s.eq(bytes));
    let mut shim = shim2();
    assert!(dec_Vector3_Vector3(bytes, &TI2, &mut shim).is_ok());
    assert!(out!(shim, 0, Variant::Vector3(x) => v3eq(x, &a)) && out!(shim, 1, Variant::Vector3(x) => v3eq(x, &b)));
    assert!(once_each(&shim));
    kani::cover!(true, "end of harness reached");
    std::mem::forget(shim);
    std::mem::forget(cb);
}

//@ obligation: U3.Vector3.wire
//@ cost: heavy
//@ props: C04 C13
//@ fns: decode_prop_chunk[Type::Vector3/VariantType::Vector3] decode_prop_chunk[Type::Color3/VariantType::Color3] decode_prop_chunk[Type::Vector2/VariantType::Vector2]
//@ kind: bounded
//@ bound: column of 2 values, wire length 0..=24 (Vector3, Color3), 0..=16 (Vector2)
//@ checks: functional
//@ covers: 2
#[kani::proof]
#[kani::unwind(10)]
fn u3_vector3_wire() {
    let w: [u8; 24] = kani::any();
    let n: usize = kani::any();
    kani::assume(n <= 24);
    let mut shim = shim2();
    let r = dec_Vector3_Vector3(&w[..n], &TI2, &mut shim);
    let mut shimc = shim2();
    let rc = dec_Color3_Color3(&w[..n], &TI2, &mut shimc);
    let mut shim2d = shim2();
    let r2 = dec_Vector2_Vector2(&w[..n], &TI2, &mut shim2d);
    if n == 24 {
        assert!(r.is_ok() && rc.is_ok() && r2.is_ok());
    }
    if n == 24 {
        let mut d = De::new(&w);
        let x = d.rbx_f32::<2>();
        let y = d.rbx_f32::<2>();
        let z = d.rbx_f32::<2>();
        assert!(out!(shim, 0, Variant::Vector3(v) => feq(v.x, x[0]) && feq(v.y, y[0]) && feq(v.z, z[0])));
        assert!(out!(shim, 1, Variant::Vector3(v) => feq(v.x, x[1]) && feq(v.y, y[1]) && feq(v.z, z[1])));
        assert!(out!(shimc, 0, Variant::Color3(v) => feq(v.r, x[0]) && feq(v.g, y[0]) && feq(v.b, z[0])));
        assert!(out!(shimc, 1, Variant::Color3(v) => feq(v.r, x[1]) && feq(v.g, y[1]) && feq(v.b, z[1])));
        assert!(out!(shim2d, 0, Variant::Vector2(v) => feq(v.x, x[0]) && feq(v.y, y[0])));
        assert!(out!(shim2d, 1, Variant::Vector2(v) => feq(v.x, x[1]) && feq(v.y, y[1])));
        assert!(once_each(&shim) && once_each(&shimc) && once_each(&shim2d));
    }
    kani::cover!(r.is_ok(), "complete input reached");
    kani::cover!(n == 0, "truncated input reached");
    std::mem::forget(shim);
    std::mem::forget(shimc);
    std::mem::forget(shim2d);
}

// ---------------------------------------------------------------- CFrame / OptionalCFrame
//@include shared/rotid_contract.rs.inc

/// Matrix3::to_basic_rotation_id replaced by its contract, with a concrete result *shape*.
/// The harness announces, per call, a result (`ROTID_PLAN`); the stub ASSERTS that this result is
/// permitted by the function's contract `post_rotid` for the actual argument and returns it. Each
/// encode harness is run once for EVERY result the contract permits for its inputs (for an exact
/// documented rotation: that id, or None; for a general matrix: None only - U6.rotid.unique shows
/// no other id is possible), so whatever the real function returns within its contract
/// (U6.rotid.sound), the layout obligation covers it.
/// (Returning an unconstrained value under `assume(post_rotid)` - what stub_verified does - makes
/// the encoded length symbolic and exhausted 30 GB in CBMC's array post-processing; measured.)
static mut ROTID_CALLS: usize = 0;
static mut ROTID_PLAN: [Option<u8>; 2] = [None, None];
fn rotid_planned(m: &Matrix3) -> Option<u8> {
    unsafe {
        let k = ROTID_CALLS;
        ROTID_CALLS += 1;
        let r = ROTID_PLAN[k];
        assert!(post_rotid(m, r), "planned rotation id does not satisfy the contract of to_basic_rotation_id");
        r
    }
}

fn m3_of(t: &[[i8; 3]; 3]) -> Matrix3 {
    Matrix3::new(
        Vector3::new(t[0][0] as f32, t[0][1] as f32, t[0][2] as f32),
        Vector3::new(t[1][0] as f32, t[1][1] as f32, t[1][2] as f32),
        Vector3::new(t[2][0] as f32, t[2][1] as f32, t[2][2] as f32),
    )
}
fn m3eq(a: &Matrix3, b: &Matrix3) -> bool {
    v3eq(&a.x, &b.x) && v3eq(&a.y, &b.y) && v3eq(&a.z, &b.z)
}
fn spec_m3(s: &mut Spec, m: &Matrix3) {
    // R00 R01 R02 R10 R11 R12 R20 R21 R22, untransformed little-endian f32
    s.le_f32(m.x.x);
    s.le_f32(m.x.y);
    s.le_f32(m.x.z);
    s.le_f32(m.y.x);
    s.le_f32(m.y.y);
    s.le_f32(m.y.z);
    s.le_f32(m.z.x);
    s.le_f32(m.z.y);
    s.le_f32(m.z.z);
}
/// a matrix that is certainly not within epsilon of any axis-aligned basis (R00 > 2)
fn general_m3() -> Matrix3 {
    let m = Matrix3::new(v3any(), v3any(), v3any());
    kani::assume(m.x.x > 2.0);
    m
}

fn cframe_enc(snap: bool) {
    // snap concrete: whether to_basic_rotation_id snaps the exact documented rotation (both are
    // permitted by its contract)
    let id: u8 = kani::any();
    let t = spec_rotation(id);
    kani::assume(t.is_some());
    let ra = m3_of(&t.unwrap());
    let rb = general_m3();
    let a = CFrame::new(v3any(), ra);
    let b = CFrame::new(v3any(), rb);
    let (v0, v1) = (Variant::CFrame(a), Variant::CFrame(b));
    unsafe {
        ROTID_CALLS = 0;
        ROTID_PLAN = [if snap { Some(id) } else { None }, None];
    }
    let mut cb = newcb();
    assert!(enc_CFrame(col2(&v0, &v1), &mut cb, &EncShim::empty()).is_ok());
    assert!(unsafe { ROTID_CALLS } == 2);
    let bytes = buffer_of(&cb);
    // per value: rotation id, or 00 + nine floats; then the positions as a Vector3 array
    let mut s = Spec::new();
    if snap {
        s.u8(id);
    } else {
        s.u8(0);
        spec_m3(&mut s, &ra);
    }
    s.u8(0);
    spec_m3(&mut s, &rb);
    s.rbx_f32([a.position.x, b.position.x]);
    s.rbx_f32([a.position.y, b.position.y]);
    s.rbx_f32([a.position.z, b.position.z]);
    assert!(s.eq(bytes));
    std::mem::forget(cb);
}

//@ obligation: U3.CFrame.enc
//@ cost: heavy
//@ props: C01 C03
//@ fns: serialize_properties[Type::CFrame]
//@ kind: bounded
//@ bound: column of 2 values: value 0 = any of the 24 documented rotations (written as its id, or as nine floats - both are permitted), value 1 = any matrix with R00 > 2 (general form); positions fully symbolic
//@ checks: functional
//@ covers: 1
//@ timeout: 1200
//@ note: modular: Matrix3::to_basic_rotation_id is replaced by its contract (rotid_planned), once per result the contract permits. Round trip = this layout obligation composed with U3.CFrame.wire.* (decode of any wire bytes), which share the independent layout.
#[kani::proof]
#[kani::unwind(8)]
#[kani::stub(rbx_dom_weak::types::Matrix3::to_basic_rotation_id, rotid_planned)]
fn u3_cframe_enc() {
    cframe_enc(true);
    cframe_enc(false);
    kani::cover!(true, "end of harness reached");
}

fn cframe_wire(explicit0: bool) {
    // explicit0 concrete at every call site: value 0 stored as 00 + nine floats, or as an id byte
    let mut w: [u8; 62] = kani::any();
    if explicit0 {
        w[0] = 0;
    } else {
        kani::assume(w[0] != 0);
    }
    let id0 = w[0];
    // layout: [id0] (+36 bytes if id0 == 0) [id1] then 24 bytes of positions
    let rot0 = if explicit0 { 37 } else { 1 };
    let id1 = w[rot0];
    let total = rot0 + 1 + 24;
    kani::assume(id1 != 0);
    let n: usize = kani::any();
    kani::assume(n <= total);
    let mut shim = shim2();
    let r = dec_CFrame_CFrame(&w[..n], &TI2, &mut shim);
    let valid = (explicit0 || spec_rotation(id0).is_some()) && spec_rotation(id1).is_some();
    // documented ids (or an explicit matrix) must decode; undocumented ids and truncation: no panic
    if n == total && valid {
        assert!(r.is_ok());
    }
    if r.is_ok() && n == total && valid {
        let mut d = De::new(&w);
        d.pos = 1;
        let m0 = if explicit0 {
            Matrix3::new(
                Vector3::new(d.le_f32(), d.le_f32(), d.le_f32()),
                Vector3::new(d.le_f32(), d.le_f32(), d.le_f32()),
                Vector3::new(d.le_f32(), d.le_f32(), d.le_f32()),
            )
        } else {
            m3_of(&spec_rotation(id0).unwrap())
        };
        let m1 = m3_of(&spec_rotation(id1).unwrap());
        d.pos = rot0 + 1;
        let x = d.rbx_f32::<2>();
        let y = d.rbx_f32::<2>();
        let z = d.rbx_f32::<2>();
        assert!(out!(shim, 0, Variant::CFrame(c) => m3eq(&c.orientation, &m0) && feq(c.position.x, x[0]) && feq(c.position.y, y[0]) && feq(c.position.z, z[0])));
        assert!(out!(shim, 1, Variant::CFrame(c) => m3eq(&c.orientation, &m1) && feq(c.position.x, x[1]) && feq(c.position.y, y[1]) && feq(c.position.z, z[1])));
        assert!(once_each(&shim));
    }
    kani::cover!(r.is_ok(), "complete valid input reached");
    kani::cover!(n == 0, "truncated input reached");
    std::mem::forget(shim);
}

//@ obligation: U3.CFrame.wire.pos
//@ props: C01 C04
//@ fns: decode_prop_chunk[Type::CFrame/VariantType::CFrame]
//@ kind: bounded
//@ bound: complete column of 2 values with the fixed rotation ids 0a and 23 (the id -> matrix table is covered for all ids by U6.rotid.table); positions symbolic
//@ checks: functional
//@ covers: 1
//@ timeout: 900
//@ note: quick-tier stand-in for U3.CFrame.wire.id / .explicit (symbolic ids, explicit matrices, truncation; thorough tier): rotation section, then the positions as three interleaved Float32 arrays
#[kani::proof]
#[kani::unwind(6)]
#[kani::stub(alloc::fmt::format, crate::chunk::__verif::fmt_stub)]
fn u3_cframe_wire_pos() {
    let p: [u8; 24] = kani::any();
    let mut w = [0u8; 26];
    w[0] = 0x0a;
    w[1] = 0x23;
    w[2..].copy_from_slice(&p);
    let mut shim = shim2();
    let r = dec_CFrame_CFrame(&w, &TI2, &mut shim);
    assert!(r.is_ok());
    let mut d = De::new(&w);
    d.pos = 2;
    let x = d.rbx_f32::<2>();
    let y = d.rbx_f32::<2>();
    let z = d.rbx_f32::<2>();
    let m0 = m3_of(&spec_rotation(0x0a).unwrap());
    let m1 = m3_of(&spec_rotation(0x23).unwrap());
    assert!(out!(shim, 0, Variant::CFrame(c) => m3eq(&c.orientation, &m0) && feq(c.position.x, x[0]) && feq(c.position.y, y[0]) && feq(c.position.z, z[0])));
    assert!(out!(shim, 1, Variant::CFrame(c) => m3eq(&c.orientation, &m1) && feq(c.position.x, x[1]) && feq(c.position.y, y[1]) && feq(c.position.z, z[1])));
    assert!(once_each(&shim));
    kani::cover!(true, "end of harness reached");
    std::mem::forget(shim);
}

//@ obligation: U3.CFrame.wire.id
//@ cost: heavy
//@ tier: thorough
//@ props: C01 C04 C13
//@ fns: decode_prop_chunk[Type::CFrame/VariantType::CFrame]
//@ kind: bounded
//@ bound: column of 2 values, both rotations stored as id bytes (any non-zero byte incl. undocumented ids); positions symbolic; wire truncated at any length
//@ checks: functional
//@ covers: 2
//@ timeout: 1200
#[kani::proof]
#[kani::unwind(6)]
#[kani::stub(alloc::fmt::format, crate::chunk::__verif::fmt_stub)]
fn u3_cframe_wire_id() {
    cframe_wire(false);
}

//@ obligation: U3.CFrame.wire.explicit
//@ cost: heavy
//@ tier: thorough
//@ props: C01 C04 C13
//@ fns: decode_prop_chunk[Type::CFrame/VariantType::CFrame]
//@ kind: bounded
//@ bound: column of 2 values, value 0 stored as 00 + nine symbolic floats, value 1 as an id byte; wire truncated at any length
//@ checks: functional
//@ covers: 2
//@ timeout: 1200
//@ note: a foreign writer may store an explicit nine-float matrix that equals a basic rotation; it must come back as exactly that matrix
#[kani::proof]
#[kani::unwind(6)]
#[kani::stub(alloc::fmt::format, crate::chunk::__verif::fmt_stub)]
fn u3_cframe_wire_explicit() {
    cframe_wire(true);
}

fn optionalcframe_enc(some_b: bool, snap: bool) {
    // some_b, snap concrete at every call site (the layout's shape must not be symbolic); snap =
    // whether to_basic_rotation_id snaps exact documented rotations (both permitted by its contract)
    let ra = general_m3();
    let a = CFrame::new(v3any(), ra);
    let id: u8 = kani::any();
    let t = spec_rotation(id);
    kani::assume(t.is_some());
    let rb = m3_of(&t.unwrap());
    let bpos = v3any();
    let b = if some_b { Some(CFrame::new(bpos, rb)) } else { None };
    let (v0, v1) = (Variant::OptionalCFrame(Some(a)), Variant::OptionalCFrame(b));
    unsafe {
        ROTID_CALLS = 0;
        // a valueless entry is written as the identity CFrame (id 02 when snapped)
        ROTID_PLAN = [None, if snap { Some(if some_b { id } else { 0x02 }) } else { None }];
    }
    let mut cb = newcb();
    assert!(enc_OptionalCFrame(col2(&v0, &v1), &mut cb, &EncShim::empty()).is_ok());
    assert!(unsafe { ROTID_CALLS } == 2);
    let bytes = buffer_of(&cb);
    // 10, CFrame array (valueless entries written as the identity CFrame at the origin), 02, one bool per value
    let mut s = Spec::new();
    s.u8(0x10);
    s.u8(0);
    spec_m3(&mut s, &ra);
    if snap {
        s.u8(if some_b { id } else { 0x02 });
    } else {
        s.u8(0);
        let written = if some_b { rb } else { m3_of(&[[1, 0, 0], [0, 1, 0], [0, 0, 1]]) };
        spec_m3(&mut s, &written);
    }
    let (bx, by, bz) = if some_b { (bpos.x, bpos.y, bpos.z) } else { (0.0, 0.0, 0.0) };
    s.rbx_f32([a.position.x, bx]);
    s.rbx_f32([a.position.y, by]);
    s.rbx_f32([a.position.z, bz]);
    s.u8(0x02);
    s.u8(1);
    s.u8(if some_b { 1 } else { 0 });
    assert!(s.eq(bytes));
    std::mem::forget(cb);
}

//@ obligation: U3.OptionalCFrame.enc
//@ cost: heavy
//@ props: C01 C03
//@ fns: serialize_properties[Type::OptionalCFrame]
//@ kind: bounded
//@ bound: columns of 2 values: [Some(general matrix, R00 > 2), Some(documented rotation)] (rotation snapped or not) and [Some(general matrix), None]
//@ checks: functional
//@ covers: 1
//@ timeout: 1200
//@ note: modular: Matrix3::to_basic_rotation_id replaced by its contract (rotid_planned)
#[kani::proof]
#[kani::unwind(8)]
#[kani::stub(rbx_dom_weak::types::Matrix3::to_basic_rotation_id, rotid_planned)]
fn u3_optionalcframe_enc() {
    optionalcframe_enc(true, true);
    optionalcframe_enc(false, true);
    optionalcframe_enc(true, false);
    kani::cover!(true, "end of harness reached");
}

//@ obligation: U3.OptionalCFrame.wire
//@ cost: heavy
//@ tier: thorough
//@ props: C01 C04 C13
//@ fns: decode_prop_chunk[Type::OptionalCFrame/VariantType::OptionalCFrame]
//@ kind: bounded
//@ bound: column of 2 values, both rotations given as documented ids (any, incl. invalid); marker bytes, positions and presence bytes symbolic; wire truncated at any length
//@ checks: functional
//@ covers: 3
//@ timeout: 1200
#[kani::proof]
#[kani::unwind(6)]
#[kani::stub(alloc::fmt::format, crate::chunk::__verif::fmt_stub)]
fn u3_optionalcframe_wire() {
    // 10 id0 id1 <24 bytes positions> 02 p0 p1
    let w: [u8; 30] = kani::any();
    let n: usize = kani::any();
    kani::assume(n <= 30);
    kani::assume(w[1] != 0 && w[2] != 0);
    let mut shim = shim2();
    let r = dec_OptionalCFrame_OptionalCFrame(&w[..n], &TI2, &mut shim);
    let valid = w[0] == 0x10 && spec_rotation(w[1]).is_some() && spec_rotation(w[2]).is_some() && w[27] == 0x02;
    if n == 30 && valid {
        assert!(r.is_ok());
    }
    if r.is_ok() && n == 30 && valid {
        let mut d = De::new(&w);
        d.pos = 3;
        let x = d.rbx_f32::<2>();
        let y = d.rbx_f32::<2>();
        let z = d.rbx_f32::<2>();
        let mut k = 0;
        while k < 2 {
            let m = m3_of(&spec_rotation(w[1 + k]).unwrap());
            if w[28 + k] == 0 {
                assert!(out!(shim, k, Variant::OptionalCFrame(None) => true));
            } else {
                assert!(out!(shim, k, Variant::OptionalCFrame(Some(c)) => m3eq(&c.orientation, &m) && feq(c.position.x, x[k]) && feq(c.position.y, y[k]) && feq(c.position.z, z[k])));
            }
            k += 1;
        }
        assert!(once_each(&shim));
    }
    kani::cover!(r.is_ok() && n == 30 && w[28] == 0, "valueless entry reached");
    kani::cover!(r.is_ok() && n == 30 && w[28] != 0, "valued entry reached");
    kani::cover!(n == 0, "truncated input reached");
    std::mem::forget(shim);
}

// ---------------------------------------------------------------- Enum / Int64 / SecurityCapabilities
//@ obligation: U3.Enum
//@ props: C01 C03 C04 C13
//@ fns: serialize_properties[Type::Enum] decode_prop_chunk[Type::Enum/VariantType::Enum]
//@ kind: bounded
//@ bound: column of 2 values (value 1 given as EnumItem, which the encoder accepts); wire: any 8 bytes / truncated
//@ checks: functional
//@ covers: 2
#[kani::proof]
#[kani::unwind(12)]
fn u3_enum() {
    let a: u32 = kani::any();
    let b: u32 = kani::any();
    let (v0, v1) = (Variant::Enum(Enum::from_u32(a)), Variant::Enum(Enum::from_u32(b)));
    let mut cb = newcb();
    assert!(enc_Enum(col2(&v0, &v1), &mut cb, &EncShim::empty()).is_ok());
    let bytes = buffer_of(&cb);
    let mut s = Spec::new();
    s.interleaved_be32([a, b]);
    assert!(s.eq(bytes));
    let n: usize = kani::any();
    kani::assume(n <= 8);
    let w: [u8; 8] = kani::any();
    let mut shim = shim2();
    let r = dec_Enum_Enum(&w[..n], &TI2, &mut shim);
    // complete input must decode; what a truncated column yields (error or not) is not prescribed - only that it does not panic
    if n == 8 {
        assert!(r.is_ok());
    }
    if n == 8 {
        let e = De::new(&w).interleaved_be32::<2>();
        assert!(out!(shim, 0, Variant::Enum(x) => x.to_u32() == e[0]) && out!(shim, 1, Variant::Enum(x) => x.to_u32() == e[1]));
        assert!(once_each(&shim));
    }
    kani::cover!(r.is_ok(), "complete input reached");
    kani::cover!(n == 0, "truncated input reached");
    std::mem::forget(shim);
    std::mem::forget(cb);
}

//@ obligation: U3.Int64
//@ cost: heavy
//@ props: C01 C03 C04 C13
//@ fns: serialize_properties[Type::Int64] decode_prop_chunk[Type::Int64/VariantType::Int64] serialize_properties[Type::SecurityCapabilities] decode_prop_chunk[Type::SecurityCapabilities/VariantType::SecurityCapabilities]
//@ kind: bounded
//@ bound: column of 2 values (Int64 value 1 given as Int32, which the encoder widens); wire: any 16 bytes / truncated
//@ checks: functional
//@ covers: 2
#[kani::proof]
#[kani::unwind(12)]
fn u3_int64() {
    let a: i64 = kani::any();
    let b: i32 = kani::any();
    let (v0, v1) = (Variant::Int64(a), Variant::Int32(b));
    let mut cb = newcb();
    assert!(enc_Int64(col2(&v0, &v1), &mut cb, &EncShim::empty()).is_ok());
    let mut s = Spec::new();
    s.zz_i64([a, b as i64]);
    assert!(s.eq(buffer_of(&cb)));
    // SecurityCapabilities: the 64 capability bits as a transformed i64
    let ca: u64 = kani::any();
    let cbits: u64 = kani::any();
    let (c0, c1) = (Variant::SecurityCapabilities(SecurityCapabilities::from_bits(ca)), Variant::SecurityCapabilities(SecurityCapabilities::from_bits(cbits)));
    let mut cb2 = newcb();
    assert!(enc_SecurityCapabilities(col2(&c0, &c1), &mut cb2, &EncShim::empty()).is_ok());
    let mut s2 = Spec::new();
    s2.zz_i64([ca as i64, cbits as i64]);
    assert!(s2.eq(buffer_of(&cb2)));
    let n: usize = kani::any();
    kani::assume(n <= 16);
    let w: [u8; 16] = kani::any();
    let mut shim = shim2();
    let r = dec_Int64_Int64(&w[..n], &TI2, &mut shim);
    let mut shimc = shim2();
    let rc = dec_SecurityCapabilities_SecurityCapabilities(&w[..n], &TI2, &mut shimc);
    if n == 16 {
        assert!(r.is_ok() && rc.is_ok());
    }
    if n == 16 {
        let e = De::new(&w).zz_i64::<2>();
        assert!(out!(shim, 0, Variant::Int64(x) => *x == e[0]) && out!(shim, 1, Variant::Int64(x) => *x == e[1]));
        assert!(out!(shimc, 0, Variant::SecurityCapabilities(x) => x.bits() == e[0] as u64) && out!(shimc, 1, Variant::SecurityCapabilities(x) => x.bits() == e[1] as u64));
        assert!(once_each(&shim) && once_each(&shimc));
    }
    kani::cover!(r.is_ok(), "complete input reached");
    kani::cover!(n == 0, "truncated input reached");
    std::mem::forget(shim);
    std::mem::forget(shimc);
    std::mem::forget(cb);
    std::mem::forget(cb2);
}

// ---------------------------------------------------------------- Vector3int16 / NumberRange / Rect
//@ obligation: U3.Vector3int16
//@ props: C01 C03 C04 C13
//@ fns: serialize_properties[Type::Vector3int16] decode_prop_chunk[Type::Vector3int16/VariantType::Vector3int16]
//@ kind: bounded
//@ bound: column of 2 values; wire: any 12 bytes / truncated
//@ checks: functional
//@ covers: 2
#[kani::proof]
#[kani::unwind(8)]
fn u3_vector3int16() {
    let a = Vector3int16::new(kani::any(), kani::any(), kani::any());
    let b = Vector3int16::new(kani::any(), kani::any(), kani::any());
    let (v0, v1) = (Variant::Vector3int16(a), Variant::Vector3int16(b));
    let mut cb = newcb();
    assert!(enc_Vector3int16(col2(&v0, &v1), &mut cb, &EncShim::empty()).is_ok());
    // three little-endian i16 per value, values in sequence
    let mut s = Spec::new();
    for v in [&a, &b] {
        s.le_u16(v.x as u16);
        s.le_u16(v.y as u16);
        s.le_u16(v.z as u16);
    }
    assert!(s.eq(buffer_of(&cb)));
    let n: usize = kani::any();
    kani::assume(n <= 12);
    let w: [u8; 12] = kani::any();
    let mut shim = shim2();
    let r = dec_Vector3int16_Vector3int16(&w[..n], &TI2, &mut shim);
    // complete input must decode; what a truncated column yields (error or not) is not prescribed - only that it does not panic
    if n == 12 {
        assert!(r.is_ok());
    }
    if n == 12 {
        let mut d = De::new(&w);
        let e0 = (d.le_u16() as i16, d.le_u16() as i16, d.le_u16() as i16);
        let e1 = (d.le_u16() as i16, d.le_u16() as i16, d.le_u16() as i16);
        assert!(out!(shim, 0, Variant::Vector3int16(x) => x.x == e0.0 && x.y == e0.1 && x.z == e0.2));
        assert!(out!(shim, 1, Variant::Vector3int16(x) => x.x == e1.0 && x.y == e1.1 && x.z == e1.2));
        assert!(once_each(&shim));
    }
    kani::cover!(r.is_ok(), "complete input reached");
    kani::cover!(n == 0, "truncated input reached");
    std::mem::forget(shim);
    std::mem::forget(cb);
}

//@ obligation: U3.NumberRange
//@ props: C01 C03 C04 C13
//@ fns: serialize_properties[Type::NumberRange] decode_prop_chunk[Type::NumberRange/VariantType::NumberRange]
//@ kind: bounded
//@ bound: column of 2 values; wire: any 16 bytes / truncated
//@ checks: functional
//@ covers: 2
#[kani::proof]
#[kani::unwind(8)]
fn u3_numberrange() {
    let a = NumberRange::new(f32any(), f32any());
    let b = NumberRange::new(f32any(), f32any());
    let (v0, v1) = (Variant::NumberRange(a), Variant::NumberRange(b));
    let mut cb = newcb();
    assert!(enc_NumberRange(col2(&v0, &v1), &mut cb, &EncShim::empty()).is_ok());
    let mut s = Spec::new();
    s.le_f32(a.min);
    s.le_f32(a.max);
    s.le_f32(b.min);
    s.le_f32(b.max);
    assert!(s.eq(buffer_of(&cb)));
    let n: usize = kani::any();
    kani::assume(n <= 16);
    let w: [u8; 16] = kani::any();
    let mut shim = shim2();
    let r = dec_NumberRange_NumberRange(&w[..n], &TI2, &mut shim);
    // complete input must decode; what a truncated column yields (error or not) is not prescribed - only that it does not panic
    if n == 16 {
        assert!(r.is_ok());
    }
    if n == 16 {
        let mut d = De::new(&w);
        let e = [d.le_f32(), d.le_f32(), d.le_f32(), d.le_f32()];
        assert!(out!(shim, 0, Variant::NumberRange(x) => feq(x.min, e[0]) && feq(x.max, e[1])));
        assert!(out!(shim, 1, Variant::NumberRange(x) => feq(x.min, e[2]) && feq(x.max, e[3])));
        assert!(once_each(&shim));
    }
    kani::cover!(r.is_ok(), "complete input reached");
    kani::cover!(n == 0, "truncated input reached");
    std::mem::forget(shim);
    std::mem::forget(cb);
}

//@ obligation: U3.Rect
//@ cost: heavy
//@ props: C01 C03 C04 C13
//@ fns: serialize_properties[Type::Rect] decode_prop_chunk[Type::Rect/VariantType::Rect]
//@ kind: bounded
//@ bound: column of 2 values; wire: any 32 bytes / truncated
//@ checks: functional
//@ covers: 2
#[kani::proof]
#[kani::unwind(10)]
fn u3_rect() {
    let a = Rect::new(Vector2::new(f32any(), f32any()), Vector2::new(f32any(), f32any()));
    let b = Rect::new(Vector2::new(f32any(), f32any()), Vector2::new(f32any(), f32any()));
    let (v0, v1) = (Variant::Rect(a), Variant::Rect(b));
    let mut cb = newcb();
    assert!(enc_Rect(col2(&v0, &v1), &mut cb, &EncShim::empty()).is_ok());
    // four Float32 arrays: Min.X, Min.Y, Max.X, Max.Y
    let mut s = Spec::new();
    s.rbx_f32([a.min.x, b.min.x]);
    s.rbx_f32([a.min.y, b.min.y]);
    s.rbx_f32([a.max.x, b.max.x]);
    s.rbx_f32([a.max.y, b.max.y]);
    assert!(s.eq(buffer_of(&cb)));
    let n: usize = kani::any();
    kani::assume(n <= 32);
    let w: [u8; 32] = kani::any();
    let mut shim = shim2();
    let r = dec_Rect_Rect(&w[..n], &TI2, &mut shim);
    // complete input must decode; what a truncated column yields (error or not) is not prescribed - only that it does not panic
    if n == 32 {
        assert!(r.is_ok());
    }
    if n == 32 {
        let mut d = De::new(&w);
        let x0 = d.rbx_f32::<2>();
        let y0 = d.rbx_f32::<2>();
        let x1 = d.rbx_f32::<2>();
        let y1 = d.rbx_f32::<2>();
        assert!(out!(shim, 0, Variant::Rect(x) => feq(x.min.x, x0[0]) && feq(x.min.y, y0[0]) && feq(x.max.x, x1[0]) && feq(x.max.y, y1[0])));
        assert!(out!(shim, 1, Variant::Rect(x) => feq(x.min.x, x0[1]) && feq(x.min.y, y0[1]) && feq(x.max.x, x1[1]) && feq(x.max.y, y1[1])));
        assert!(once_each(&shim));
    }
    kani::cover!(r.is_ok(), "complete input reached");
    kani::cover!(n == 0, "truncated input reached");
    std::mem::forget(shim);
    std::mem::forget(cb);
}

// ---------------------------------------------------------------- PhysicalProperties / Color3uint8 / UniqueId
fn physprops_enc(first_custom: bool) {
    // first_custom concrete at every call site
    let custom = CustomPhysicalProperties { density: f32any(), friction: f32any(), elasticity: f32any(), friction_weight: f32any(), elasticity_weight: f32any() };
    let (pa, pb) = if first_custom { (PhysicalProperties::Custom(custom), PhysicalProperties::Default) } else { (PhysicalProperties::Default, PhysicalProperties::Custom(custom)) };
    let (v0, v1) = (Variant::PhysicalProperties(pa), Variant::PhysicalProperties(pb));
    let mut cb = newcb();
    assert!(enc_PhysicalProperties(col2(&v0, &v1), &mut cb, &EncShim::empty()).is_ok());
    // 00 for default; 01 + five little-endian f32 for custom
    let mut s = Spec::new();
    if !first_custom {
        s.u8(0);
    }
    s.u8(1);
    s.le_f32(custom.density);
    s.le_f32(custom.friction);
    s.le_f32(custom.elasticity);
    s.le_f32(custom.friction_weight);
    s.le_f32(custom.elasticity_weight);
    if first_custom {
        s.u8(0);
    }
    let bytes = buffer_of(&cb);
    assert!(s.eq(bytes));
    let mut shim = shim2();
    assert!(dec_PhysicalProperties_PhysicalProperties(bytes, &TI2, &mut shim).is_ok());
    let kc = if first_custom { 0 } else { 1 };
    assert!(out!(shim, kc, Variant::PhysicalProperties(PhysicalProperties::Custom(c)) => feq(c.density, custom.density) && feq(c.friction, custom.friction) && feq(c.elasticity, custom.elasticity) && feq(c.friction_weight, custom.friction_weight) && feq(c.elasticity_weight, custom.elasticity_weight)));
    assert!(out!(shim, 1 - kc, Variant::PhysicalProperties(PhysicalProperties::Default) => true));
    assert!(once_each(&shim));
    std::mem::forget(shim);
    std::mem::forget(cb);
}

//@ obligation: U3.PhysicalProperties
//@ props: C01 C03
//@ fns: serialize_properties[Type::PhysicalProperties] decode_prop_chunk[Type::PhysicalProperties/VariantType::PhysicalProperties]
//@ kind: bounded
//@ bound: columns of 2 values: [Custom, Default] and [Default, Custom]; the five floats symbolic
//@ checks: functional
//@ covers: 1
#[kani::proof]
#[kani::unwind(8)]
fn u3_physicalproperties() {
    physprops_enc(true);
    physprops_enc(false);
    kani::cover!(true, "end of harness reached");
}

fn physprops_wire(total: usize) {
    // total concrete: 2 (default, default), 22 (one custom), 42 (both custom)
    let mut w: [u8; 42] = kani::any();
    w[0] = if total == 42 { 1 } else { 0 };
    if total == 22 {
        w[1] = 1;
    } else if total == 2 {
        w[1] = 0;
    } else {
        w[21] = 1;
    }
    let n: usize = kani::any();
    kani::assume(n <= total);
    let mut shim = shim2();
    let r = dec_PhysicalProperties_PhysicalProperties(&w[..n], &TI2, &mut shim);
    if n == total {
        assert!(r.is_ok());
    }
    if n == total {
        let mut d = De::new(&w);
        let mut k = 0;
        while k < 2 {
            if d.u8() == 1 {
                let e = [d.le_f32(), d.le_f32(), d.le_f32(), d.le_f32(), d.le_f32()];
                assert!(out!(shim, k, Variant::PhysicalProperties(PhysicalProperties::Custom(c)) => feq(c.density, e[0]) && feq(c.friction, e[1]) && feq(c.elasticity, e[2]) && feq(c.friction_weight, e[3]) && feq(c.elasticity_weight, e[4])));
            } else {
                assert!(out!(shim, k, Variant::PhysicalProperties(PhysicalProperties::Default) => true));
            }
            k += 1;
        }
        assert!(once_each(&shim));
    }
    std::mem::forget(shim);
}

//@ obligation: U3.PhysicalProperties.wire
//@ cost: heavy
//@ props: C04 C13
//@ fns: decode_prop_chunk[Type::PhysicalProperties/VariantType::PhysicalProperties]
//@ kind: bounded
//@ bound: column of 2 values in the three shapes default/default, default/custom, custom/custom; floats symbolic; wire truncated at any length
//@ checks: functional
//@ covers: 1
#[kani::proof]
#[kani::unwind(8)]
fn u3_physicalproperties_wire() {
    physprops_wire(2);
    physprops_wire(22);
    physprops_wire(42);
    kani::cover!(true, "end of harness reached");
}

//@ obligation: U3.Color3uint8
//@ props: C01 C03 C04 C13
//@ fns: serialize_properties[Type::Color3uint8] decode_prop_chunk[Type::Color3uint8/VariantType::Color3]
//@ kind: bounded
//@ bound: column of 2 values (value 1 given as Color3 and quantised by the encoder); wire: any 6 bytes / truncated
//@ checks: functional
//@ covers: 2
//@ note: the reader hands back Color3uint8 for a property declared Color3 (documented normalisation)
#[kani::proof]
#[kani::unwind(10)]
fn u3_color3uint8() {
    let a = Color3uint8::new(kani::any(), kani::any(), kani::any());
    let b8 = Color3uint8::new(kani::any(), kani::any(), kani::any());
    let bwide: Color3 = b8.into();
    let (v0, v1) = (Variant::Color3uint8(a), Variant::Color3(bwide));
    let mut cb = newcb();
    assert!(enc_Color3uint8(col2(&v0, &v1), &mut cb, &EncShim::empty()).is_ok());
    // three consecutive arrays R, G, B; no interleaving
    let mut s = Spec::new();
    s.u8(a.r);
    s.u8(b8.r);
    s.u8(a.g);
    s.u8(b8.g);
    s.u8(a.b);
    s.u8(b8.b);
    assert!(s.eq(buffer_of(&cb)));
    let w: [u8; 6] = kani::any();
    let n: usize = kani::any();
    kani::assume(n <= 6);
    let mut shim = shim2();
    let r = dec_Color3uint8_Color3(&w[..n], &TI2, &mut shim);
    // complete input must decode; what a truncated column yields (error or not) is not prescribed - only that it does not panic
    if n == 6 {
        assert!(r.is_ok());
    }
    if n == 6 {
        assert!(out!(shim, 0, Variant::Color3uint8(x) => x.r == w[0] && x.g == w[2] && x.b == w[4]));
        assert!(out!(shim, 1, Variant::Color3uint8(x) => x.r == w[1] && x.g == w[3] && x.b == w[5]));
        assert!(once_each(&shim));
    }
    kani::cover!(r.is_ok(), "complete input reached");
    kani::cover!(n == 0, "truncated input reached");
    std::mem::forget(shim);
    std::mem::forget(cb);
}

//@ obligation: U3.UniqueId
//@ cost: heavy
//@ props: C01 C03 C04 C13 C17
//@ fns: serialize_properties[Type::UniqueId] decode_prop_chunk[Type::UniqueId/VariantType::UniqueId]
//@ kind: bounded
//@ bound: column of 2 values (all index/time/random incl. negative random); wire: any 32 bytes / truncated
//@ checks: functional
//@ covers: 2
//@ note: layout = 16 bytes per id, Index (u32 BE), Time (u32 BE), Random (i64 BE) interleaved over the column. The code additionally rotates Random left by one bit; docs/binary.md says "no modifications" - the harness follows the code for that one field and DESIGN.md records the discrepancy
#[kani::proof]
#[kani::unwind(18)]
fn u3_uniqueid() {
    let a = UniqueId::new(kani::any(), kani::any(), kani::any());
    let b = UniqueId::new(kani::any(), kani::any(), kani::any());
    let (v0, v1) = (Variant::UniqueId(a), Variant::UniqueId(b));
    let mut cb = newcb();
    assert!(enc_UniqueId(col2(&v0, &v1), &mut cb, &EncShim::empty()).is_ok());
    let bytes = buffer_of(&cb);
    assert!(bytes.len() == 32);
    let ra = (a.random() as u64).rotate_left(1);
    let rb = (b.random() as u64).rotate_left(1);
    let blob_a: [u8; 16] = {
        let mut x = [0u8; 16];
        let mut i = 0;
        while i < 4 { x[i] = (a.index() >> (8 * (3 - i))) as u8; x[4 + i] = (a.time() >> (8 * (3 - i))) as u8; i += 1; }
        let mut i = 0;
        while i < 8 { x[8 + i] = (ra >> (8 * (7 - i))) as u8; i += 1; }
        x
    };
    let blob_b: [u8; 16] = {
        let mut x = [0u8; 16];
        let mut i = 0;
        while i < 4 { x[i] = (b.index() >> (8 * (3 - i))) as u8; x[4 + i] = (b.time() >> (8 * (3 - i))) as u8; i += 1; }
        let mut i = 0;
        while i < 8 { x[8 + i] = (rb >> (8 * (7 - i))) as u8; i += 1; }
        x
    };
    let mut j = 0;
    while j < 16 {
        assert!(bytes[2 * j] == blob_a[j] && bytes[2 * j + 1] == blob_b[j]);
        j += 1;
    }
    let mut shim = shim2();
    assert!(dec_UniqueId_UniqueId(bytes, &TI2, &mut shim).is_ok());
    assert!(out!(shim, 0, Variant::UniqueId(x) => *x == a) && out!(shim, 1, Variant::UniqueId(x) => *x == b));
    assert!(once_each(&shim));
    // truncated wire
    let w: [u8; 32] = kani::any();
    let n: usize = kani::any();
    kani::assume(n <= 32);
    let mut shimw = shim2();
    let r = dec_UniqueId_UniqueId(&w[..n], &TI2, &mut shimw);
    // complete input must decode; what a truncated column yields (error or not) is not prescribed - only that it does not panic
    if n == 32 {
        assert!(r.is_ok());
    }
    kani::cover!(r.is_ok(), "complete input reached");
    kani::cover!(n == 0, "truncated input reached");
    std::mem::forget(shim);
    std::mem::forget(shimw);
    std::mem::forget(cb);
}

// ---------------------------------------------------------------- Ref
fn mkref(s: &str) -> Ref {
    use std::str::FromStr;
    match Ref::from_str(s) {
        Ok(r) => r,
        Err(_) => Ref::none(),
    }
}

//@ obligation: U3.Ref
//@ cost: heavy
//@ props: C01 C03
//@ fns: serialize_properties[Type::Ref] decode_prop_chunk[Type::Ref/VariantType::Ref]
//@ kind: bounded
//@ bound: column of 2 values: a reference to a written instance (file referents symbolic in [0, 2^30]) and a reference to an instance outside the written set or the null Ref
//@ checks: functional
//@ covers: 1
#[kani::proof]
#[kani::unwind(12)]
fn u3_ref() {
    let ra = mkref("a1");
    let rb = mkref("b2");
    let outside = mkref("c3");
    let fa: i32 = kani::any();
    let fb: i32 = kani::any();
    kani::assume(fa >= 0 && fa <= (1 << 30) && fb >= 0 && fb <= (1 << 30) && fa != fb);
    let mut shim_e = EncShim::empty();
    shim_e.id_to_referent = EncRefMap { keys: [ra, rb], vals: [fa, fb], n: 2 };
    let null_second: bool = kani::any();
    let (v0, v1) = (Variant::Ref(rb), Variant::Ref(if null_second { Ref::none() } else { outside }));
    let mut cb = newcb();
    assert!(enc_Ref(col2(&v0, &v1), &mut cb, &shim_e).is_ok());
    let bytes = buffer_of(&cb);
    // referent array: first value as is, then differences; -1 is the null referent
    let mut s = Spec::new();
    s.zz_i32([fb, -1 - fb]);
    assert!(s.eq(bytes));
    // instances with file referents fa, fb exist and map to builders ra, rb
    let mut shim = DecShim::new([fa, fb], 2, ra, rb);
    let ti = DecTypeInfo::<2> { type_id: 0, referents: [fa, fb], type_name: "" };
    assert!(dec_Ref_Ref(bytes, &ti, &mut shim).is_ok());
    // inside the written set -> the corresponding new instance; outside / null -> null
    assert!(out!(shim, 0, Variant::Ref(x) => *x == rb) && out!(shim, 1, Variant::Ref(x) => x.is_none()));
    assert!(once_each(&shim));
    kani::cover!(true, "end of harness reached");
    std::mem::forget(shim);
    std::mem::forget(cb);
}

//@ obligation: U3.Ref.wire
//@ props: C04 C13
//@ fns: decode_prop_chunk[Type::Ref/VariantType::Ref] RbxReadExt::read_referent_array
//@ kind: bounded
//@ bound: column of 2 values; any 8 wire bytes (all referent numbers incl. sums that leave the i32 range) / truncated
//@ checks: functional
//@ covers: 2
#[kani::proof]
#[kani::unwind(12)]
fn u3_ref_wire() {
    let ra = mkref("a1");
    let rb = mkref("b2");
    let fa: i32 = kani::any();
    let fb: i32 = kani::any();
    kani::assume(fa != fb);
    let w: [u8; 8] = kani::any();
    let n: usize = kani::any();
    kani::assume(n <= 8);
    let mut shim = DecShim::new([fa, fb], 2, ra, rb);
    let ti = DecTypeInfo::<2> { type_id: 0, referents: [fa, fb], type_name: "" };
    let r = dec_Ref_Ref(&w[..n], &ti, &mut shim);
    // complete input must decode; what a truncated column yields (error or not) is not prescribed - only that it does not panic
    if n == 8 {
        assert!(r.is_ok());
    }
    if n == 8 {
        let d = De::new(&w).zz_i32::<2>();
        let e0 = d[0] as i64;
        let e1 = e0 + d[1] as i64;
        // accumulated referents; unknown numbers come back as the null Ref
        if e1 >= i32::MIN as i64 && e1 <= i32::MAX as i64 {
            let want0 = if e0 == fa as i64 { ra } else if e0 == fb as i64 { rb } else { Ref::none() };
            let want1 = if e1 == fa as i64 { ra } else if e1 == fb as i64 { rb } else { Ref::none() };
            assert!(out!(shim, 0, Variant::Ref(x) => *x == want0) && out!(shim, 1, Variant::Ref(x) => *x == want1));
        }
        assert!(once_each(&shim));
    }
    kani::cover!(r.is_ok(), "complete input reached");
    kani::cover!(n == 0, "truncated input reached");
    std::mem::forget(shim);
}

// ---------------------------------------------------------------- Content: no obligation
// Measured: both the encode arm and the decode arm of Type::Content exhaust 20 GB / 1200 s in CBMC
// even at unwind 6 with concrete shapes (VecDeque, String clones behind a niche-encoded enum tag).
// The arm is therefore NOT under contract; DESIGN.md lists it under "out of reach".

// ---------------------------------------------------------------- String family (bounded)
//@ obligation: U3.String.bin
//@ props: C01 C03 C04
//@ fns: serialize_properties[Type::String] decode_prop_chunk[Type::String/VariantType::BinaryString]
//@ kind: bounded
//@ bound: column of 2 values: a BinaryString of 2 arbitrary bytes and a String of 1 ASCII character (contents symbolic)
//@ checks: functional
//@ covers: 1
//@ timeout: 1200
//@ note: every string-like value is a u32 length + bytes, values in sequence; a column read for a property unknown to the database comes back as BinaryString (documented normalisation)
#[kani::proof]
#[kani::unwind(6)]
fn u3_string_bin() {
    let c: [u8; 3] = kani::any();
    kani::assume(c[2] < 0x80);
    let v0 = Variant::BinaryString(BinaryString::from(vec![c[0], c[1]]));
    let v1 = Variant::String(unsafe { String::from_utf8_unchecked(vec![c[2]]) });
    let mut cb = newcb();
    assert!(enc_String(col2(&v0, &v1), &mut cb, &EncShim::empty()).is_ok());
    let bytes = buffer_of(&cb);
    let mut s = Spec::new();
    s.le_u32(2);
    s.u8(c[0]);
    s.u8(c[1]);
    s.le_u32(1);
    s.u8(c[2]);
    assert!(s.eq(bytes));
    let mut shim = shim2();
    assert!(dec_String_BinaryString(bytes, &TI2, &mut shim).is_ok());
    assert!(out!(shim, 0, Variant::BinaryString(x) => { let x: &[u8] = x.as_ref(); x.len() == 2 && x[0] == c[0] && x[1] == c[1] }));
    assert!(out!(shim, 1, Variant::BinaryString(x) => { let x: &[u8] = x.as_ref(); x.len() == 1 && x[0] == c[2] }));
    assert!(once_each(&shim));
    kani::cover!(true, "end of harness reached");
    std::mem::forget(shim);
    std::mem::forget(cb);
    std::mem::forget(v0);
    std::mem::forget(v1);
}

// (A harness for the String / ContentId declared types of the same wire type - from_utf8 validation,
// lossy conversion and its log::warn! formatting - exhausted 20 GB in CBMC; only the BinaryString
// reading of the column is under contract.)

// ---------------------------------------------------------------- NumberSequence / ColorSequence (bounded)
//@ obligation: U3.NumberSequence
//@ props: C01 C03 C04
//@ fns: serialize_properties[Type::NumberSequence] decode_prop_chunk[Type::NumberSequence/VariantType::NumberSequence]
//@ kind: bounded
//@ bound: column of 2 values: a sequence of 2 keypoints and an empty sequence; all floats symbolic
//@ checks: functional
//@ covers: 1
//@ timeout: 1200
#[kani::proof]
#[kani::unwind(8)]
fn u3_numbersequence() {
    let k0 = NumberSequenceKeypoint::new(f32any(), f32any(), f32any());
    let k1 = NumberSequenceKeypoint::new(f32any(), f32any(), f32any());
    let v0 = Variant::NumberSequence(NumberSequence { keypoints: vec![k0, k1] });
    let v1 = Variant::NumberSequence(NumberSequence { keypoints: Vec::new() });
    let mut cb = newcb();
    assert!(enc_NumberSequence(col2(&v0, &v1), &mut cb, &EncShim::empty()).is_ok());
    let bytes = buffer_of(&cb);
    // keypoint count, then Time, Value, Envelope per keypoint (little-endian f32)
    let mut s = Spec::new();
    s.le_u32(2);
    for k in [&k0, &k1] {
        s.le_f32(k.time);
        s.le_f32(k.value);
        s.le_f32(k.envelope);
    }
    s.le_u32(0);
    assert!(s.eq(bytes));
    let mut shim = shim2();
    assert!(dec_NumberSequence_NumberSequence(bytes, &TI2, &mut shim).is_ok());
    assert!(out!(shim, 0, Variant::NumberSequence(x) => x.keypoints.len() == 2
        && feq(x.keypoints[0].time, k0.time) && feq(x.keypoints[0].value, k0.value) && feq(x.keypoints[0].envelope, k0.envelope)
        && feq(x.keypoints[1].time, k1.time) && feq(x.keypoints[1].value, k1.value) && feq(x.keypoints[1].envelope, k1.envelope)));
    assert!(out!(shim, 1, Variant::NumberSequence(x) => x.keypoints.is_empty()));
    assert!(once_each(&shim));
    kani::cover!(true, "end of harness reached");
    std::mem::forget(shim);
    std::mem::forget(cb);
    std::mem::forget(v0);
    std::mem::forget(v1);
}

//@ obligation: U3.ColorSequence
//@ cost: heavy
//@ tier: thorough
//@ props: C01 C03 C04
//@ fns: serialize_properties[Type::ColorSequence] decode_prop_chunk[Type::ColorSequence/VariantType::ColorSequence]
//@ kind: bounded
//@ bound: column of 2 values: a sequence of 2 keypoints and a sequence of 1 keypoint; all floats symbolic
//@ checks: functional
//@ covers: 1
//@ timeout: 1200
//@ note: the envelope slot is written as 0 and ignored on read (documented: serialized, but not used)
#[kani::proof]
#[kani::unwind(8)]
fn u3_colorsequence() {
    let k0 = ColorSequenceKeypoint::new(f32any(), Color3::new(f32any(), f32any(), f32any()));
    let k1 = ColorSequenceKeypoint::new(f32any(), Color3::new(f32any(), f32any(), f32any()));
    let k2 = ColorSequenceKeypoint::new(f32any(), Color3::new(f32any(), f32any(), f32any()));
    let v0 = Variant::ColorSequence(ColorSequence { keypoints: vec![k0, k1] });
    let v1 = Variant::ColorSequence(ColorSequence { keypoints: vec![k2] });
    let mut cb = newcb();
    assert!(enc_ColorSequence(col2(&v0, &v1), &mut cb, &EncShim::empty()).is_ok());
    let bytes = buffer_of(&cb);
    let mut s = Spec::new();
    s.le_u32(2);
    for k in [&k0, &k1] {
        s.le_f32(k.time);
        s.le_f32(k.color.r);
        s.le_f32(k.color.g);
        s.le_f32(k.color.b);
        s.le_f32(0.0);
    }
    s.le_u32(1);
    s.le_f32(k2.time);
    s.le_f32(k2.color.r);
    s.le_f32(k2.color.g);
    s.le_f32(k2.color.b);
    s.le_f32(0.0);
    assert!(s.eq(bytes));
    let mut shim = shim2();
    assert!(dec_ColorSequence_ColorSequence(bytes, &TI2, &mut shim).is_ok());
    assert!(out!(shim, 0, Variant::ColorSequence(x) => x.keypoints.len() == 2
        && feq(x.keypoints[0].time, k0.time) && feq(x.keypoints[0].color.r, k0.color.r) && feq(x.keypoints[0].color.g, k0.color.g) && feq(x.keypoints[0].color.b, k0.color.b)
        && feq(x.keypoints[1].time, k1.time) && feq(x.keypoints[1].color.r, k1.color.r) && feq(x.keypoints[1].color.g, k1.color.g) && feq(x.keypoints[1].color.b, k1.color.b)));
    assert!(out!(shim, 1, Variant::ColorSequence(x) => x.keypoints.len() == 1 && feq(x.keypoints[0].time, k2.time) && feq(x.keypoints[0].color.b, k2.color.b)));
    assert!(once_each(&shim));
    kani::cover!(true, "end of harness reached");
    std::mem::forget(shim);
    std::mem::forget(cb);
    std::mem::forget(v0);
    std::mem::forget(v1);
}

// ---------------------------------------------------------------- Font (bounded)
//@ obligation: U3.Font
//@ cost: heavy
//@ props: C01 C03 C04
//@ fns: serialize_properties[Type::Font] decode_prop_chunk[Type::Font/VariantType::Font]
//@ kind: bounded
//@ bound: column of 2 values: family of 1 ASCII character each, every weight/style, cached face id absent / 1 character
//@ checks: functional
//@ covers: 1
//@ timeout: 1200
//@ note: Family (String), Weight u16 LE, Style u8, CachedFaceId (String, empty = None)
#[kani::proof]
#[kani::unwind(8)]
fn u3_font() {
    let c: [u8; 3] = kani::any();
    kani::assume(c[0] < 0x80 && c[1] < 0x80 && c[2] < 0x80);
    let wn: u16 = kani::any();
    let sn: u8 = kani::any();
    if let (Some(weight), Some(style)) = (FontWeight::from_u16(wn), FontStyle::from_u8(sn)) {
        let fa = Font { family: unsafe { String::from_utf8_unchecked(vec![c[0]]) }, weight, style, cached_face_id: None };
        let fb = Font { family: unsafe { String::from_utf8_unchecked(vec![c[1]]) }, weight: FontWeight::Regular, style: FontStyle::Normal, cached_face_id: Some(unsafe { String::from_utf8_unchecked(vec![c[2]]) }) };
        let (v0, v1) = (Variant::Font(fa), Variant::Font(fb));
        let mut cb = newcb();
        assert!(enc_Font(col2(&v0, &v1), &mut cb, &EncShim::empty()).is_ok());
        let bytes = buffer_of(&cb);
        let mut s = Spec::new();
        s.le_u32(1);
        s.u8(c[0]);
        s.le_u16(wn);
        s.u8(sn);
        s.le_u32(0);
        s.le_u32(1);
        s.u8(c[1]);
        s.le_u16(400);
        s.u8(0);
        s.le_u32(1);
        s.u8(c[2]);
        assert!(s.eq(bytes));
        let mut shim = shim2();
        assert!(dec_Font_Font(bytes, &TI2, &mut shim).is_ok());
        assert!(out!(shim, 0, Variant::Font(x) => x.family.len() == 1 && x.family.as_bytes()[0] == c[0] && x.weight == weight && x.style == style && x.cached_face_id.is_none()));
        assert!(out!(shim, 1, Variant::Font(x) => x.family.len() == 1 && x.family.as_bytes()[0] == c[1] && x.weight == FontWeight::Regular && x.style == FontStyle::Normal
            && match &x.cached_face_id { Some(f) => f.len() == 1 && f.as_bytes()[0] == c[2], None => false }));
        assert!(once_each(&shim));
        kani::cover!(true, "end of harness reached");
        std::mem::forget(shim);
        std::mem::forget(cb);
        std::mem::forget(v0);
        std::mem::forget(v1);
    }
}

// ---------------------------------------------------------------- SharedString (decode side, no SSTR entries)
//@ obligation: U3.SharedString.wire
//@ props: C13 C04
//@ fns: decode_prop_chunk[Type::SharedString/VariantType::SharedString]
//@ kind: bounded
//@ bound: column of 2 values, any 8 wire bytes (all index pairs) / truncated; the file has declared NO shared strings (SharedString values cannot be built under Kani: blake3 + global table)
//@ checks: functional
//@ covers: 2
//@ timeout: 1200
//@ note: every index is out of range for an empty SSTR table: an error, never a panic, and no instance receives a value
#[kani::proof]
#[kani::unwind(6)]
#[kani::stub(alloc::fmt::format, crate::chunk::__verif::fmt_stub)]
fn u3_sharedstring_wire() {
    let w: [u8; 8] = kani::any();
    let n: usize = kani::any();
    kani::assume(n <= 8);
    let mut shim = shim2();
    let r = dec_SharedString_SharedString(&w[..n], &TI2, &mut shim);
    // no shared string exists, so no instance may receive one; error vs. skip is not prescribed
    assert!(untouched(&shim));
    let _ = r.is_err();
    kani::cover!(n == 8, "complete input reached");
    kani::cover!(n < 8, "truncated input reached");
    std::mem::forget(shim);
}

// ---------------------------------------------------------------- file header / END chunk (writer)
//@ obligation: U5.hdr.write
//@ props: C03
//@ fns: SerializerState::write_header
//@ kind: complete
//@ covers: 1
//@ checks: functional
//@ note: verbatim body of write_header over a state double holding the two counts: magic "<roblox!", signature 89 ff 0d 0a 1a 0a, version 0, class count and instance count as u32 LE, 8 zero bytes (docs/binary.md File Header); and FileHeader::decode reads the same counts back
#[kani::proof]
#[kani::unwind(16)]
fn u5_hdr_write() {
    let nt: u32 = kani::any();
    let ni: u32 = kani::any();
    let mut st = EncState { output: Vec::with_capacity(64), type_infos: EncTypeInfos { values: EncLen { n: nt as usize } }, relevant_instances: EncLen { n: ni as usize } };
    assert!(es_write_header(&mut st).is_ok());
    let mut s = Spec::new();
    for b in [0x3cu8, 0x72, 0x6f, 0x62, 0x6c, 0x6f, 0x78, 0x21, 0x89, 0xff, 0x0d, 0x0a, 0x1a, 0x0a] {
        s.u8(b);
    }
    s.le_u16(0);
    s.le_u32(nt);
    s.le_u32(ni);
    s.le_u64(0);
    assert!(s.eq(&st.output));
    let h = crate::deserializer::FileHeader::decode(&st.output[..]);
    assert!(match &h { Ok(h) => h.num_types == nt && h.num_instances == ni, Err(_) => false });
    kani::cover!(true, "end of harness reached");
    std::mem::forget(h);
    std::mem::forget(st);
}

//@ obligation: U5.end
//@ props: C03 C04
//@ fns: SerializerState::serialize_end
//@ kind: complete
//@ covers: 1
//@ checks: functional
//@ note: verbatim body of serialize_end: the file ends with the chunk END\0, not compressed (compressed length 0), length 9, reserved 0, payload "</roblox>"; and Chunk::decode reads it back
#[kani::proof]
#[kani::unwind(12)]
#[kani::stub(alloc::fmt::format, crate::chunk::__verif::fmt_stub)]
fn u5_end() {
    let mut st = EncState { output: Vec::with_capacity(64), type_infos: EncTypeInfos { values: EncLen { n: 0 } }, relevant_instances: EncLen { n: 0 } };
    assert!(es_serialize_end(&mut st).is_ok());
    let mut s = Spec::new();
    for b in [b'E', b'N', b'D', 0u8] {
        s.u8(b);
    }
    s.le_u32(0);
    s.le_u32(9);
    s.le_u32(0);
    for b in [b'<', b'/', b'r', b'o', b'b', b'l', b'o', b'x', b'>'] {
        s.u8(b);
    }
    assert!(s.eq(&st.output));
    kani::cover!(true, "end of harness reached");
    std::mem::forget(st);
}

// ---------------------------------------------------------------- head of decode_prop_chunk (C04)
fn dp_state() -> DpState {
    DpState {
        type_infos: DpTypeInfos { id: 7, info: DecTypeInfo::<2> { type_id: 0, referents: [0, 1], type_name: "" } },
        instances_by_ref: DpMap {
            keys: [0, 1],
            inst: [DpInstance { builder: DpBuilder { referent: Ref::none(), named: 0 } }, DpInstance { builder: DpBuilder { referent: Ref::none(), named: 0 } }],
        },
        unknown_type_ids: DpSet { seen: 0 },
    }
}

fn prop_head_case(n: usize, cid: u32) {
    // n (how much of the chunk is present) and cid (class id) concrete at every call site
    let name: u8 = kani::any();
    kani::assume(name < 0x80);
    let tb: u8 = kani::any();
    // class id, name (1 character), type byte
    let w: [u8; 10] = [cid as u8, (cid >> 8) as u8, (cid >> 16) as u8, (cid >> 24) as u8, 1, 0, 0, 0, name, tb];
    let mut st = dp_state();
    let mut reached: Option<crate::types::Type> = None;
    let r = dp_head(&w[..n], &mut st, &mut reached);
    let untouched = st.instances_by_ref.inst[0].builder.named == 0 && st.instances_by_ref.inst[1].builder.named == 0;
    if n < 9 || cid != 7 {
        assert!(r.is_err() && reached.is_none() && untouched);
    } else if n == 9 {
        // ends after the name: silently skipped
        assert!(r.is_ok() && reached.is_none() && untouched);
    } else {
        let listed = matches!(tb, 0x01..=0x0e | 0x10 | 0x12..=0x1c | 0x1e | 0x1f | 0x20 | 0x21 | 0x22);
        assert!(r.is_ok() && untouched);
        // every documented id must be recognised; an id the document does not list must never be
        // taken for one of the documented types (0x1d Bytecode is documented but unimplemented)
        if listed {
            assert!(reached.is_some());
        }
        if let Some(t) = reached {
            assert!(t as u8 == tb && (listed || tb == 0x1d));
        }
    }
    std::mem::forget(st);
}

//@ obligation: U4.prop.head
//@ props: C04 C13
//@ fns: decode_prop_chunk[head]
//@ kind: bounded
//@ bound: property name of 1 ASCII character (symbolic, so never "Name"); type byte symbolic (all 256); chunk complete, cut after the name, cut inside the name; declared and undeclared class id
//@ checks: functional
//@ covers: 1
//@ timeout: 1500
//@ note: verbatim head of decode_prop_chunk over state doubles: a chunk that ends right after the property name is skipped (Ok, no instance touched); a type byte that docs/binary.md does not list is skipped likewise; a listed byte selects exactly that wire type; an undeclared class id is an error; a chunk cut inside the name is an error, never a panic
#[kani::proof]
#[kani::unwind(5)]
#[kani::stub(alloc::fmt::format, crate::chunk::__verif::fmt_stub)]
fn u4_prop_head() {
    prop_head_case(10, 7);
    prop_head_case(9, 7);
    prop_head_case(10, 8);
    prop_head_case(6, 7);
    kani::cover!(true, "end of harness reached");
}

// ---------------------------------------------------------------- add_property (C15)
//@ obligation: U9.addprop
//@ props: C15
//@ fns: add_property
//@ kind: complete
//@ covers: 1
//@ checks: functional
//@ timeout: 900
//@ note: the verbatim body of deserializer::state::add_property over a builder double (ordered pushes + has_property scan), legacy property BrickColor -> new property (every colour): (a) legacy alone -> the migrated value under the NEW name; (b) explicit new value first, legacy second -> builder unchanged; (c) legacy first, explicit second -> the explicit value is pushed after the migrated one (later entry wins when the builder is collected - assumption on InstanceBuilder); the legacy name is never added
#[kani::proof]
#[kani::unwind(4)]
fn u9_addprop() {
    use rbx_reflection::{MigrationOperation, PropertySerialization};
    let n: u16 = kani::any();
    let x = Color3uint8::new(kani::any(), kani::any(), kani::any());
    if let Some(c) = BrickColor::from_number(n) {
        let ser = PropertySerialization::Migrate(rbx_reflection::mk_migration("New", MigrationOperation::BrickColorToColor));
        let legacy = ApCanonical { name: "Old", migration: Some(&ser) };
        let plain = ApCanonical { name: "New", migration: None };
        let want = c.to_color3uint8();
        // (a) legacy alone
        let mut a = ApInstance { builder: ApBuilder::new() };
        ap_add_property(&mut a, &legacy, Variant::BrickColor(c));
        assert!(a.builder.n == 1 && a.builder.keys[0] == 1);
        assert!(match &a.builder.vals[0] { Some(Variant::Color3uint8(v)) => *v == want, _ => false });
        // (b) explicit first, legacy second: explicit wins, nothing is added
        let mut b = ApInstance { builder: ApBuilder::new() };
        ap_add_property(&mut b, &plain, Variant::Color3uint8(x));
        ap_add_property(&mut b, &legacy, Variant::BrickColor(c));
        assert!(b.builder.n == 1 && b.builder.keys[0] == 1);
        assert!(match &b.builder.vals[0] { Some(Variant::Color3uint8(v)) => *v == x, _ => false });
        // (c) legacy first, explicit second: the explicit value is the LAST entry for the new name
        let mut k = ApInstance { builder: ApBuilder::new() };
        ap_add_property(&mut k, &legacy, Variant::BrickColor(c));
        ap_add_property(&mut k, &plain, Variant::Color3uint8(x));
        // whatever the builder holds, its LAST entry for the new name is the explicit value and the legacy name is absent
        assert!(k.builder.n >= 1 && k.builder.n <= 2 && k.builder.keys[k.builder.n - 1] == 1 && k.builder.keys[0] != 2);
        assert!(match &k.builder.vals[k.builder.n - 1] { Some(Variant::Color3uint8(v)) => *v == x, _ => false });
        kani::cover!(true, "end of harness reached");
        std::mem::forget(a);
        std::mem::forget(b);
        std::mem::forget(k);
        std::mem::forget(ser);
    }
}

//@ canary: yes
//@ props: C01 C03 C04 C13 C15
//@ checks: functional
#[kani::proof]
#[kani::unwind(8)]
fn canary_u3() {
    let a = Ray::new(v3any(), v3any());
    let v0 = Variant::Ray(a);
    let mut cb = newcb();
    assert!(enc_Ray(col1(&v0), &mut cb, &EncShim::empty()).is_ok());
    let bytes = buffer_of(&cb);
    // wrong on purpose: direction.z is not at offset 12
    assert!(bytes[12] == a.direction.z.to_bits() as u8);
    std::mem::forget(cb);
}
