#!/usr/bin/env python3
"""Collect per-obligation wall times from the evidence files into contracts/costs.json
(scheduling hint only: the driver bins harnesses by estimated cost and shares the cores accordingly)."""
import glob, json, os
ROOT = os.path.dirname(os.path.dirname(os.path.abspath(__file__)))
costs = {}
for f in glob.glob(os.path.join(ROOT, "evidence", "*.json")):
    d = json.load(open(f))
    for s in d["coverage"]["samples"]:
        if s.get("backend") == "kani" and s["status"] in ("discharged", "known_finding"):
            costs[s["obligation"]] = max(costs.get(s["obligation"], 0), round(s["wall_s"]))
json.dump(dict(sorted(costs.items())), open(os.path.join(ROOT, "contracts", "costs.json"), "w"), indent=0)
print(len(costs), "costs")
