#!/bin/bash
# usage: try_seed.sh <seed-id> <PROP> [check args...]  -- applies seeded/<id>/patch.diff to /repo, runs check, reverts
set -u
S=$1; P=$2; shift 2
cd /repo && git apply /verif/seeded/$S/patch.diff || { echo "APPLY FAILED"; exit 9; }
cd /verif && ./check $P --no-evidence "$@"; RC=$?
git -C /repo checkout -- . ; git -C /repo status --short | grep -v '^??' | head -3
echo "seed=$S prop=$P rc=$RC"
