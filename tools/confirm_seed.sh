#!/bin/bash
# usage: confirm_seed.sh <worktree> <outdir>
# Confirms a seeded change in place (worktree has it applied, SEED/ has patch+demo):
#  1. patch.diff == git diff of library sources  2. test pass-set identical to clean tree
#  3. demo fails with change                     4. demo passes without it
set -u
WT=$1; OUT=$2
export CARGO_TARGET_DIR=$WT/target CARGO_NET_OFFLINE=true
cd $WT || exit 9
mkdir -p $OUT
git diff -- . ':!SEED' > $OUT/patch.now.diff
if ! diff -q <(grep -v '^index ' $OUT/patch.now.diff) <(grep -v '^index ' SEED/patch.diff) >/dev/null; then echo "NOTE: patch.diff differs from working tree diff; using working tree diff"; fi
cp $OUT/patch.now.diff $OUT/patch.diff; rm $OUT/patch.now.diff
[ -s $OUT/patch.diff ] || { echo "EMPTY PATCH"; exit 9; }
cargo test --workspace --no-fail-fast --offline 2>&1 | grep -E '^test .* \.\.\. ok$' | sort > $OUT/ok.with.txt
bash SEED/demo/run.sh > $OUT/demo.with.log 2>&1; RC_WITH=$?
git stash -q
cargo test --workspace --no-fail-fast --offline 2>&1 | grep -E '^test .* \.\.\. ok$' | sort > $OUT/ok.without.txt
bash SEED/demo/run.sh > $OUT/demo.without.log 2>&1; RC_WITHOUT=$?
git stash pop -q
echo "ok-lines with=$(wc -l < $OUT/ok.with.txt) without=$(wc -l < $OUT/ok.without.txt) same=$(cmp -s $OUT/ok.with.txt $OUT/ok.without.txt && echo yes || echo NO)"
echo "demo rc with=$RC_WITH without=$RC_WITHOUT"
rm -rf $OUT/demo; cp -r SEED/demo $OUT/demo; rm -rf $OUT/demo/target; cp SEED/README.md $OUT/README.md
