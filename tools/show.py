#!/usr/bin/env python3
import json,sys
d=json.load(open('/verif/evidence/%s.json'%sys.argv[1]))
seen=set()
for s in d['coverage']['samples']+d['coverage']['undecided']:
    k=s['obligation']
    if k in seen: continue
    seen.add(k)
    r=s['reason']
    if r.startswith('compile-error'):
        if 'ce' in seen: r='compile-error (same)'
        seen.add('ce')
    print(k,s['status'],s['wall_s'],s['solver_s'],s['cbmc_checks'],r[:700])
