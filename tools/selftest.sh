#!/bin/bash
# Reverts each fix: commit of /repo in turn (working tree only), runs the obligation that found the
# defect and expects exit 1 + VIOLATION; restores the tree. Not registered as a check.
cd /verif
run() { # <commit> <PROP> <only-glob>
  git -C /repo show $1 | git -C /repo apply -R || { echo "REVERT-FAILED $1"; return; }
  ./check $2 --only "$3" --no-evidence > /var/tmp/selftest_$1.log 2>&1; rc=$?
  git -C /repo checkout -- .
  echo "revert=$1 prop=$2 only=$3 rc=$rc $(grep -c '^VIOLATION' /var/tmp/selftest_$1.log) violation line(s): $(grep '^VIOLATION' /var/tmp/selftest_$1.log | head -2 | tr '\n' ' ')"
}
run 4588575b C04 'U3.Float32.wire'
run 8cd97e62 C13 'U5.chdr'
run 1125a436 C13 'U5.decode.trunc.18_4'
run a4647de9 C13 'U5.decode.trunc.18_4'
run e99ba89e C17 'U8.uid.parse'
run a2d5d309 C13 'U8.uid.nonascii'
run 304933f8 C13 'U3.Ref.wire'
