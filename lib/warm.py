"""setup: warm the Kani build cache by compiling (not verifying) the instrumented copy."""
import os, shutil, subprocess, sys
HERE = os.path.dirname(os.path.abspath(__file__))
sys.path.insert(0, HERE)
sys.argv = ["check"]
import importlib.machinery, importlib.util
loader = importlib.machinery.SourceFileLoader("check_main", os.path.join(os.path.dirname(HERE), "check"))
spec = importlib.util.spec_from_loader("check_main", loader)
chk = importlib.util.module_from_spec(spec)
loader.exec_module(chk)
import kani
log = []
scratch, scratch_repo, lock, obs = chk.prepare("setup", "quick", log)
env = dict(os.environ); env["CARGO_NET_OFFLINE"] = "true"; env.pop("RUSTUP_TOOLCHAIN", None)
rc = 0
try:
    for crate in sorted({o.crate for o in obs}):
        cmd = ["cargo", "kani", "--target-dir", kani.BASE_TARGET, "--only-codegen", "-Z", "function-contracts", "-Z", "stubbing",
               "--harness", "__verif_no_such_harness__"]
        p = subprocess.run(cmd, cwd=os.path.join(scratch_repo, crate), env=env, capture_output=True, text=True)
        print("warm %s rc=%d" % (crate, p.returncode))
        if p.returncode != 0:
            print((p.stdout + p.stderr)[-3000:])
finally:
    shutil.rmtree(scratch, ignore_errors=True)
sys.exit(0)
