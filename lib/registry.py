"""Obligation registry: parsed from the `//@ key: value` headers that precede every
harness in /verif/contracts/<crate>/<file>.kani.rs (Kani) and from
/verif/contracts/verus/*.spec.json (Verus).

Header keys (all on `//@` lines directly above the `#[kani::proof…] fn name()`):
  obligation: U1.zz32.inv            -- identifier reported in evidence / replays
  props: C01 C04                     -- properties this obligation contributes to
  fns: transform_i32 untransform_i32 -- real functions of /repo under contract
  kind: complete | bounded           -- complete = for all inputs, no bound
  bound: text                        -- required when kind = bounded
  tier: quick | thorough             -- smallest tier that runs it (default quick)
  canary: yes                        -- harness MUST fail (vacuity guard)
  covers: N                          -- number of kani::cover! that must be SATISFIED
  checks: full | functional | noov    -- full = all Kani default checks (default); functional = memory-safety checks off; noov = also overflow checks off
  timeout: seconds                   -- per-harness timeout (default 600)
  note: free text
  cost: heavy                        -- scheduling hint: single run > ~100 s; heavy harnesses go into their own cargo-kani invocation that starts first
  anchor: yes                        -- harness exists for a structural reason only; never run, never counted
"""
import os
import re

ROOT = os.path.dirname(os.path.dirname(os.path.abspath(__file__)))
CONTRACTS = os.path.join(ROOT, "contracts")

HDR = re.compile(r"^\s*//@\s*([a-z-]+)\s*:\s*(.*?)\s*$")
FN = re.compile(r"^\s*(?:pub\s+)?fn\s+([A-Za-z0-9_]+)\s*\(")


class Obligation:
    def __init__(self):
        self.name = None
        self.harness = None
        self.crate = None
        self.src_file = None  # e.g. src/core.rs (relative to crate)
        self.contract_file = None
        self.props = []
        self.fns = []
        self.kind = "complete"
        self.bound = ""
        self.tier = "quick"
        self.canary = False
        self.covers = 0
        self.checks = "full"
        self.timeout = 600
        self.heavy = False
        self.note = ""
        self.backend = "kani"
        self.generated = False

    @property
    def fqn(self):
        if self.backend == "verus":
            return "verus::" + self.harness
        # src/core.rs -> core::__verif::h ; src/a/b.rs -> a::b::__verif::h ; src/lib.rs -> __verif::h
        p = self.src_file
        assert p.startswith("src/") and p.endswith(".rs")
        parts = p[4:-3].split("/")
        if parts[-1] in ("mod", "lib"):
            parts = parts[:-1]
        return "::".join(parts + ["__verif", self.harness])

    def to_json_backend(self):
        return self.backend

    def to_json(self):
        return {
            "obligation": self.name,
            "harness": self.harness,
            "crate": self.crate,
            "file": self.src_file,
            "functions_under_contract": self.fns,
            "kind": self.kind,
            "bound": self.bound,
            "backend": self.backend,
        }


def parse_contract_text(text, crate, src_file, contract_file, generated=False):
    """Parse harness headers out of a .kani.rs text."""
    out = []
    cur = {}
    pending_attr = False
    for line in text.splitlines():
        m = HDR.match(line)
        if m:
            cur[m.group(1)] = m.group(2)
            continue
        if "#[kani::proof" in line:
            pending_attr = True
            continue
        m = FN.match(line)
        if m and pending_attr:
            pending_attr = False
            if "anchor" in cur:
                # structural anchor only (e.g. the proof_for_contract Kani insists on before it
                # accepts stub_verified); never selected, never counted
                cur = {}
                continue
            if "obligation" not in cur and "canary" not in cur:
                raise SystemExit(
                    "registry: harness %s in %s has no //@ obligation header"
                    % (m.group(1), contract_file)
                )
            o = Obligation()
            o.harness = m.group(1)
            o.crate = crate
            o.src_file = src_file
            o.contract_file = contract_file
            o.generated = generated
            o.name = cur.get("obligation", "canary." + o.harness)
            o.props = cur.get("props", "").split()
            o.fns = cur.get("fns", "").split()
            o.kind = cur.get("kind", "complete")
            o.bound = cur.get("bound", "")
            o.tier = cur.get("tier", "quick")
            o.canary = cur.get("canary", "no") == "yes"
            o.covers = int(cur.get("covers", "0"))
            o.checks = cur.get("checks", "full")
            o.timeout = int(cur.get("timeout", "600"))
            o.note = cur.get("note", "")
            o.heavy = cur.get("cost", "") == "heavy"
            if o.kind not in ("complete", "bounded"):
                raise SystemExit("registry: bad kind for %s" % o.harness)
            if o.kind == "bounded" and not o.bound:
                raise SystemExit("registry: bounded obligation %s lacks a bound" % o.name)
            out.append(o)
            cur = {}
        elif m:
            # helper fn, not a harness: headers (if any) do not carry over
            if cur and "obligation" in cur:
                raise SystemExit(
                    "registry: //@ header before non-harness fn %s in %s"
                    % (m.group(1), contract_file)
                )
    return out


def contract_files():
    """Yield (crate, src_file, path) for every static contract file.
    contracts/<crate>/<path with __ for />.kani.rs, e.g. serializer__state.kani.rs"""
    for crate in sorted(os.listdir(CONTRACTS)):
        d = os.path.join(CONTRACTS, crate)
        if not os.path.isdir(d) or crate in ("verus", "doubles"):
            continue
        for f in sorted(os.listdir(d)):
            if f.endswith(".kani.rs"):
                rel = f[: -len(".kani.rs")].replace("__", "/")
                yield crate, "src/%s.rs" % rel, os.path.join(d, f)


def load_static(generated=None):
    """generated: {name: text} for `//@include generated:<name>` directives (harnesses may live there)"""
    obs = []
    for crate, src, path in contract_files():
        with open(path) as fh:
            text = fh.read()
        if generated:
            for k, v in generated.items():
                text = text.replace("//@include generated:%s" % k, v)
        obs += parse_contract_text(text, crate, src, path)
    return obs


def load_verus():
    import json
    p = os.path.join(CONTRACTS, "verus", "obligations.json")
    out = []
    if not os.path.exists(p):
        return out
    with open(p) as fh:
        for e in json.load(fh):
            o = Obligation()
            o.name = e["name"]
            o.harness = e["fn"]
            o.crate = "rbx_binary"
            o.src_file = "src/core.rs"
            o.contract_file = p
            o.props = e["props"]
            o.fns = e["fns"]
            o.kind = "complete"
            o.backend = "verus"
            o.note = e.get("note", "")
            o.checks = "full"
            out.append(o)
    return out
