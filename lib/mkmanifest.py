#!/usr/bin/env python3
"""Regenerates /verif/MANIFEST.json from the tables below (keeps it schema-valid)."""
import json, os
ROOT = os.path.dirname(os.path.dirname(os.path.abspath(__file__)))

TECH = "contract-based deductive verification: Kani 0.68/CBMC function contracts and full-domain pre/post harnesses on the real functions (child module appended to a per-run copy of /repo), Verus loop-invariant proofs on mechanically extracted regions"

def _c(text, design, note=None):
    return {"text": text, "design": design,
            "note": note or "A1 tool soundness and Kani's std/float models; A2 safe Rust memory safety where memory-safety checks are off (no `unsafe` in the crates under contract); A3 std I/O and formatting helpers behave as documented; A4 lz4/zstd unverified (compressed chunk modes not covered); A5 extraction shims (match dispatch, builder/map doubles) as listed in the evidence file; A6 reflection database arbitrary but fixed; A8 every bounded obligation holds only up to the bound stated for it in the evidence file."}

CLAIMED = {
 "C01": _c("Machine-checked contracts on the leaf mechanisms of the binary round trip: scalar codecs for every bit pattern, interleaving, referent deltas, every fixed-size column arm pair (verbatim-extracted) inverse at column length 2, rotation snap only within epsilon of the documented rotation, type-id tables, uncompressed framing. Obligations over the full value domain are counted as proved; obligations with a length bound are reported separately as bounded. Traversal, numbering, name lookup and compression are outside the contracts, so the level is 'other', not a proof of the whole statement.", "DESIGN.md sections 3 (U1-U6) and 4 (C01)"),
 "C03": _c("Each encode arm under contract equals, byte for byte, an independent encoder written from docs/binary.md, plus documented type ids, chunk header layout and integer/float transformations. Whole-file structural clauses (counts, uniqueness, PRNT order, END chunk) are not covered.", "DESIGN.md sections 3 (U3, U4, U5) and 4 (C03)"),
 "C04": _c("Each decode arm under contract accepts arbitrary spec-conformant wire bytes of a 2-value column and returns what an independent reader written from docs/binary.md returns, incl. non-canonical encodings and both widening arms; zigzag is a bijection; unknown ids rejected. Chunk-level degrees of freedom (order, META, unknown chunks, PRNT order) are not covered.", "DESIGN.md sections 3 (U3, U1, U4) and 4 (C04)"),
 "C13": _c("Function-level panic-freedom: fixed-size parsers on all bytes and all truncations, decode arms and attribute arms on every truncation, error-not-panic for malformed chunk framing, short-read independence of read_exact_or_none, sink failure in ChunkBuilder::dump, text parsers. No statement about hangs, memory, whole files or the XML decoder.", "DESIGN.md sections 3 (U5, U7, U8) and 4 (C13)"),
 "C14": _c("Per-type attribute value round trip and layout against docs/attributes.md on the verbatim-extracted arms of the writer and reader, complete in the value for fixed-size types, type-id table for all 256 ids, empty map through the real functions, CFrame through the verified contract of the rotation-id function. Multi-entry maps and the carriers of the blob are not covered.", "DESIGN.md sections 3 (U7, U4, U6) and 4 (C14)"),
 "C15": _c("PropertyMigration::perform total on every legacy value the bundled database lists (one obligation per Enum.Font item, all BrickColor numbers, both booleans), deterministic, and the precedence rule of the binary reader's add_property on its verbatim body. XML sites and the writer pipeline are not covered; Enum.Font 46..51 and 100 are a recorded known finding.", "DESIGN.md sections 3 (U9) and 4 (C15)"),
 "C17": _c("UniqueId text form for all ids incl. negative random parts, BrickColor/Faces/Axes/Font number tables over their whole domains, UniqueId binary column. The serde encodings and allValues.json are not covered.", "DESIGN.md sections 3 (U8) and 4 (C17)"),
}

NOT_APPLICABLE = {
 "C02": "XML round trip runs every value through xml-rs's emitter/parser state machines and std float formatting; neither Kani nor Verus can execute or accept them, and stubbing them would prove a model (DESIGN 5).",
 "C05": "same xml-rs dependency as C02, plus an independent XML parser as oracle, which is a testing oracle and not a contract (DESIGN 5).",
 "C06": "relational property of two whole serializers and two database lookups over a lazily loaded msgpack std::HashMap database; no function-level contract expresses it and hashbrown/SipHash are intractable in CBMC (DESIGN 5).",
 "C07": "2-safety property over hash seeds and insertion orders of whole serializer runs; needs the complete serializer under the verifier (DESIGN 5).",
 "C08": "lives in collect_type_info and the `values` closure pipeline inside SerializerState (BTreeMap<Ustr,..>, UstrSet, reflection lookups); not extractable, not runnable in CBMC (DESIGN 5).",
 "C09": "measured: the single induction step (transfer_within preserves well-formedness on a 3-node DOM with assoc-list doubles) did not leave CBMC's SSA conversion in 900 s; Verus rejects dom.rs without rewriting it into a model (DESIGN 5).",
 "C10": "same measurement as C09: per-operation frame conditions on WeakDom are out of reach of both installed verifiers (DESIGN 5).",
 "C11": "same measurement as C09: clone/rewrite_refs need the real WeakDom maps under the verifier (DESIGN 5).",
 "C12": "DOM bookkeeping has the C09 problem, the reader paths need whole decoders, and the concurrent clause needs threads, which Kani sequentialises (DESIGN 5).",
 "C16": "quantifies over the entries of a data file; establishing coherence of 797 classes is evaluation of a predicate over data (enumeration), not deduction, and the lookups take the std::HashMap database (DESIGN 5).",
 "C18": "Kani has no threads; Verus would need the type rewritten around its permission tokens; blake3's CPU dispatch blocks Kani even sequentially (DESIGN 5).",
}

PENDING = {}  # filled by callers below when a claimed check is not built yet


def build(pending):
    checks = []
    for pid in sorted(CLAIMED):
        c = CLAIMED[pid]
        checks.append({
            "property_id": pid,
            "quick_cmd": "./check %s --tier quick" % pid,
            "thorough_cmd": "./check %s --tier thorough" % pid,
            "evidence_file": "evidence/%s.json" % pid,
            "replay_cmd_template": "./check --replay {path}",
            "engine": "contracts",
            "level_claimed": {"category": "other", "text": c["text"], "design_ref": c["design"]},
            "level_note": c["note"],
            "technique": TECH,
        })
    na = [{"property_id": k, "reason": v} for k, v in sorted({**NOT_APPLICABLE, **pending}.items())]
    return {
        "version": 1,
        "setup_cmd": "./setup.sh",
        "hooks": {
            "guard": "cfg(kani)",
            "enable": "no hook commits in /repo: every check rsyncs /repo's working tree to /var/tmp/rbxdom-verif/<id>-<tier>/repo, appends `#[cfg(kani)] mod __verif` child modules and cfg_attr(kani, ..) contract attributes to the copy (add-only, logged in the evidence) and runs `cargo kani` / `verus` there",
            "baseline_off_cmd": "cd /repo && cargo test --workspace --no-fail-fast --offline",
            "source_commits": [],
            "add_only": True,
        },
        "engines": [{
            "name": "contracts",
            "path": "check",
            "serves_properties": sorted(CLAIMED),
            "kind_free_text": "Python driver: snapshot, mechanical instrumentation (R1-R5), Kani/CBMC and Verus runs, result classification, concrete-playback replay on the real code, evidence",
        }],
        "checks": checks,
        "not_applicable": na,
        "notes": "Exit 2 from a check means undecided (timeout, lost anchor, tool failure, vacuity guard) and is never reported as a violation. Fix commits in /repo are listed in known_findings.txt.",
    }


if __name__ == "__main__":
    import sys
    sys.path.insert(0, os.path.join(ROOT, "lib"))
    pend_file = os.path.join(ROOT, "contracts", "pending.json")
    pending = json.load(open(pend_file)) if os.path.exists(pend_file) else {}
    for k in list(pending):
        if k in CLAIMED:
            del pending[k]
    m = build(pending)
    json.dump(m, open(os.path.join(ROOT, "MANIFEST.json"), "w"), indent=1)
    print("MANIFEST.json: %d checks, %d not_applicable" % (len(m["checks"]), len(m["not_applicable"])))
