#!/usr/bin/env python3
"""Regenerates /verif/MANIFEST.json from the tables below (keeps it schema-valid)."""
import json, os
ROOT = os.path.dirname(os.path.dirname(os.path.abspath(__file__)))

TECH = "contract-based deductive verification: Kani 0.68/CBMC function contracts and full-domain pre/post harnesses on the real functions (child module appended to a per-run copy of /repo), Verus loop-invariant proofs on mechanically extracted regions"

CLAIMED = {
 "C01": {
  "text": "Machine-checked contracts on the leaf mechanisms of the binary round trip: zigzag and float-rotation codecs for every bit pattern, LE/BE scalar helpers, byte interleaving, referent delta coding, rotation-id snap only within epsilon. Each is a Kani obligation over the full value domain of the real function; array lengths and column lengths are bounded stand-ins and labelled so. Traversal, referent numbering, name/alias/default lookup and the compression libraries are NOT covered, so the level is 'other', not 'proof' of the whole statement.",
  "note": "A1 tool soundness and Kani's std/float models; A2 safe Rust memory safety where memory-safety checks are off; A4 lz4/zstd unverified; A5 arm-extraction shims; A8 bounds as stated per obligation in the evidence file.",
  "design": "DESIGN.md sections 3 (U1,U2,U3,U6) and 4 (C01)",
 },
}

NOT_APPLICABLE = {
 "C02": "XML round trip runs every value through xml-rs's emitter/parser state machines and std float formatting; neither Kani nor Verus can execute or accept them, and stubbing them would prove a model (DESIGN 5).",
 "C05": "same xml-rs dependency as C02, plus an independent XML parser as oracle, which is a testing oracle and not a contract (DESIGN 5).",
 "C06": "relational property of two whole serializers and two database lookups over a lazily loaded msgpack std::HashMap database; no function-level contract expresses it and hashbrown/SipHash are intractable in CBMC (DESIGN 5).",
 "C07": "2-safety property over hash seeds and insertion orders of whole serializer runs; needs the complete serializer under the verifier (DESIGN 5).",
 "C08": "lives in collect_type_info and the `values` closure pipeline inside SerializerState (BTreeMap<Ustr,..>, UstrSet, reflection lookups); not extractable, not runnable in CBMC (DESIGN 5).",
 "C09": "measured: the single induction step (transfer_within preserves well-formedness on a 3-node DOM with assoc-list doubles) did not leave CBMC's SSA conversion in 900 s; Verus rejects dom.rs without rewriting it into a model (DESIGN 5).",
 "C10": "same measurement as C09: per-operation frame conditions on WeakDom are out of reach of both installed verifiers (DESIGN 5).",
 "C11": "same measurement as C09: clone/rewrite_refs need the real WeakDom maps under the verifier (DESIGN 5).",
 "C12": "DOM bookkeeping has the C09 problem, the reader paths need whole decoders, and the concurrent clause needs threads, which Kani sequentialises (DESIGN 5).",
 "C16": "quantifies over the entries of a data file; establishing coherence of 797 classes is evaluation of a predicate over data (enumeration), not deduction, and the lookups take the std::HashMap database (DESIGN 5).",
 "C18": "Kani has no threads; Verus would need the type rewritten around its permission tokens; blake3's CPU dispatch blocks Kani even sequentially (DESIGN 5).",
}

PENDING = {}  # filled by callers below when a claimed check is not built yet


def build(pending):
    checks = []
    for pid in sorted(CLAIMED):
        c = CLAIMED[pid]
        checks.append({
            "property_id": pid,
            "quick_cmd": "./check %s --tier quick" % pid,
            "thorough_cmd": "./check %s --tier thorough" % pid,
            "evidence_file": "evidence/%s.json" % pid,
            "replay_cmd_template": "./check --replay {path}",
            "engine": "contracts",
            "level_claimed": {"category": "other", "text": c["text"], "design_ref": c["design"]},
            "level_note": c["note"],
            "technique": TECH,
        })
    na = [{"property_id": k, "reason": v} for k, v in sorted({**NOT_APPLICABLE, **pending}.items())]
    return {
        "version": 1,
        "setup_cmd": "./setup.sh",
        "hooks": {
            "guard": "cfg(kani)",
            "enable": "no hook commits in /repo: every check rsyncs /repo's working tree to /var/tmp/rbxdom-verif/<id>-<tier>/repo, appends `#[cfg(kani)] mod __verif` child modules and cfg_attr(kani, ..) contract attributes to the copy (add-only, logged in the evidence) and runs `cargo kani` / `verus` there",
            "baseline_off_cmd": "cd /repo && cargo test --workspace --no-fail-fast --offline",
            "source_commits": [],
            "add_only": True,
        },
        "engines": [{
            "name": "contracts",
            "path": "check",
            "serves_properties": sorted(CLAIMED),
            "kind_free_text": "Python driver: snapshot, mechanical instrumentation (R1-R5), Kani/CBMC and Verus runs, result classification, concrete-playback replay on the real code, evidence",
        }],
        "checks": checks,
        "not_applicable": na,
        "notes": "Exit 2 from a check means undecided (timeout, lost anchor, tool failure, vacuity guard) and is never reported as a violation. Fix commits in /repo are listed in known_findings.txt.",
    }


if __name__ == "__main__":
    import sys
    sys.path.insert(0, os.path.join(ROOT, "lib"))
    pend_file = os.path.join(ROOT, "contracts", "pending.json")
    pending = json.load(open(pend_file)) if os.path.exists(pend_file) else {}
    for k in list(pending):
        if k in CLAIMED:
            del pending[k]
    m = build(pending)
    json.dump(m, open(os.path.join(ROOT, "MANIFEST.json"), "w"), indent=1)
    print("MANIFEST.json: %d checks, %d not_applicable" % (len(m["checks"]), len(m["not_applicable"])))
