"""Back ends other than Kani: Verus on mechanically extracted regions (rule R4)."""
import json
import os
import re
import subprocess
import time

from registry import CONTRACTS
import kani as kani_mod
import verus_extract
from instrument import LostAnchor


def run(obs, scratch, scratch_repo, log):
    results = []
    verus_obs = [o for o in obs if o.backend == "verus"]
    if not verus_obs:
        return results
    out_path = os.path.join(scratch, "interleave_verus.rs")
    res = {o.fqn: kani_mod.Result(o) for o in verus_obs}
    try:
        verus_extract.build(scratch_repo, out_path, log)
    except LostAnchor as e:
        for r in res.values():
            r.status = "undecided"
            r.reason = "lost-anchor: %s" % e
        return list(res.values())
    cmd = ["verus", out_path, "--triggers-mode", "silent", "--time", "--num-threads", "4"]
    t0 = time.time()
    try:
        p = subprocess.run(cmd, capture_output=True, text=True, timeout=900, cwd=scratch)
        out = p.stdout + "\n" + p.stderr
        rc = p.returncode
    except subprocess.TimeoutExpired:
        out, rc = "timeout", -1
    dt = time.time() - t0
    log.append("verus interleave_verus.rs: rc=%s, %.1fs" % (rc, dt))
    with open(os.path.join(scratch, "verus.log"), "w") as fh:
        fh.write(" ".join(cmd) + "\n" + out)
    m = re.search(r"verification results::\s*(\d+) verified,\s*(\d+) errors", out)
    # map error locations to functions of the generated file
    with open(out_path) as fh:
        lines = fh.read().split("\n")
    fn_at = []
    cur = None
    for ln in lines:
        fm = re.match(r"\s*(?:pub\s+)?(?:open\s+spec\s+|proof\s+)?fn\s+(\w+)", ln)
        if fm:
            cur = fm.group(1)
        fn_at.append(cur)
    failed_fns = {}
    for em in re.finditer(r"error(?:\[[^\]]*\])?: ([^\n]*)\n\s*--> [^\n:]*:(\d+):\d+", out):
        line = int(em.group(2))
        f = fn_at[line - 1] if 0 < line <= len(fn_at) else None
        failed_fns.setdefault(f, []).append(em.group(1))
    tm = re.search(r"total-time:\s*([0-9.]+)|verification time.*?(\d+)\s*ms", out, re.I)
    smt = 0.0
    sm = re.search(r"smt-time[^\d]*(\d+)\s*ms|total smt time[^\d]*([0-9.]+)", out, re.I)
    with open(os.path.join(verus_extract.CONTRACTS, "verus", "obligations.json")) as fh:
        all_ob_fns = {e["fn"] for e in json.load(fh)}
    for r in res.values():
        o = r.ob
        r.cmd = " ".join(cmd)
        r.total_s = dt
        r.raw = out
        if m is None:
            r.status = "undecided"
            r.reason = "verus produced no verification result (%s)" % ("timeout" if rc == -1 else "rc=%s: %s" % (rc, out[-300:].replace("\n", " ")))
            continue
        r.n_checks = int(m.group(1)) + int(m.group(2))
        # a failure inside a function that is an obligation of ANOTHER property is that property's business
        helper_fail = [k for k in failed_fns if k not in all_ob_fns]
        mine = failed_fns.get(o.harness, [])
        if mine:
            r.status = "violated"
            r.failed_checks = [{"description": "verus: %s in %s" % (d, o.harness), "function": o.harness, "category": "verus", "location": "interleave_verus.rs"} for d in mine]
        elif helper_fail:
            r.status = "undecided"
            r.reason = "verus: error outside the contracted functions: %s" % failed_fns
        elif int(m.group(2)) > 0 and not (failed_fns and all(k in all_ob_fns for k in failed_fns)):
            r.status = "undecided"
            r.reason = "verus: unattributed errors"
        elif int(m.group(1)) == 0:
            r.status = "undecided"
            r.reason = "verus: zero obligations verified"
        else:
            r.status = "discharged"
    return list(res.values())
