"""Mechanical, add-only instrumentation of the per-run scratch copy of /repo.

R1  append `#[cfg(kani)] mod __verif { use super::*; … }` to the END of each source file
    that has a contract file.
R2  splice `#[cfg_attr(kani, kani::requires/ensures(..))]` lines directly above named fn
    items (contracts/splice.json). Anchor regex must match exactly once, else LostAnchor.
R3  arm extraction (lib/arms.py), text appended inside the R1 module of state.rs files.
R5  dependency doubles / Cargo.toml edits (contracts/doubles).

Every rule logs what it did; the log goes into the evidence file.
"""
import json
import os
import re
import shutil
import subprocess

from registry import CONTRACTS, ROOT, contract_files


class LostAnchor(Exception):
    pass


def snapshot(repo, dest):
    """rsync the *current working tree* of /repo (not HEAD) into dest/repo."""
    os.makedirs(dest, exist_ok=True)
    target = os.path.join(dest, "repo")
    cmd = [
        "rsync", "-a", "--delete",
        "--exclude", "/target", "--exclude", ".git", "--exclude", "/test-files",
        "--exclude", "benches/files", "--exclude", "/rbx_dom_lua",
        repo.rstrip("/") + "/", target + "/",
    ]
    subprocess.run(cmd, check=True)
    return target


def splice_contracts(scratch_repo, log):
    path = os.path.join(CONTRACTS, "splice.json")
    if not os.path.exists(path):
        return
    with open(path) as fh:
        entries = json.load(fh)
    by_file = {}
    for e in entries:
        by_file.setdefault((e["crate"], e["file"]), []).append(e)
    for (crate, f), es in by_file.items():
        p = os.path.join(scratch_repo, crate, f)
        with open(p) as fh:
            lines = fh.read().split("\n")
        for e in es:
            rx = re.compile(e["anchor"])
            hits = [i for i, l in enumerate(lines) if rx.search(l)]
            if len(hits) != 1:
                raise LostAnchor(
                    "R2: anchor %r matched %d times in %s/%s" % (e["anchor"], len(hits), crate, f)
                )
            i = hits[0]
            # step above attributes/doc comments that directly precede the fn
            while i > 0 and re.match(r"^\s*(#\[|///)", lines[i - 1]):
                i -= 1
            indent = re.match(r"^\s*", lines[hits[0]]).group(0)
            new = [indent + "#[cfg_attr(kani, %s)]" % a for a in e["attrs"]]
            lines[i:i] = new
            log.append("R2 %s/%s: %d contract attribute(s) above `%s`" % (crate, f, len(new), e["anchor"]))
        with open(p, "w") as fh:
            fh.write("\n".join(lines))


INCLUDE = re.compile(r"^//@include\s+(\S+)\s*$", re.M)
GENERATED = {}  # name -> text, filled by lib/arms.py before the modules are appended


def expand_includes(body, log, crate, src):
    def sub(m):
        if m.group(1).startswith("generated:"):
            key = m.group(1)[len("generated:"):]
            if key not in GENERATED:
                raise LostAnchor("R6: generated include %s not available" % key)
            log.append("R6 %s/%s: included generated text %s" % (crate, src, key))
            return GENERATED[key]
        p = os.path.join(CONTRACTS, m.group(1))
        with open(p) as fh:
            txt = fh.read()
        log.append("R1 %s/%s: included shared contract text %s" % (crate, src, m.group(1)))
        return txt
    return INCLUDE.sub(sub, body)


def append_modules(scratch_repo, extra_text, log):
    """R1. extra_text: {(crate, src_file): generated text to add inside the module}"""
    done = set()
    files = list(contract_files())
    keys = [(c, s) for c, s, _ in files]
    for k in extra_text:
        if k not in keys:
            files.append((k[0], k[1], None))
    for crate, src, path in files:
        if (crate, src) in done:
            continue
        done.add((crate, src))
        body = ""
        if path:
            with open(path) as fh:
                body = fh.read()
            body = expand_includes(body, log, crate, src)
        gen = extra_text.get((crate, src), "")
        p = os.path.join(scratch_repo, crate, src)
        if not os.path.exists(p):
            raise LostAnchor("R1: source file %s/%s not found" % (crate, src))
        with open(p, "a") as fh:
            fh.write("\n\n#[cfg(kani)]\n#[allow(unused, non_snake_case, clippy::all)]\npub(crate) mod __verif {\nuse super::*;\n")
            fh.write(body)
            fh.write("\n")
            fh.write(gen)
            fh.write("\n}\n")
        log.append(
            "R1 %s/%s: appended child module __verif (%d static lines, %d generated lines)"
            % (crate, src, body.count("\n"), gen.count("\n"))
        )


def apply_doubles(scratch_repo, log):
    """R5: run contracts/doubles/apply.py if present (edits Cargo.toml of the copy)."""
    d = os.path.join(CONTRACTS, "doubles")
    script = os.path.join(d, "apply.py")
    if os.path.exists(script):
        ns = {}
        with open(script) as fh:
            exec(compile(fh.read(), script, "exec"), ns)
        ns["apply"](scratch_repo, d, log)
