"""Run Kani harnesses inside the instrumented scratch copy and classify the results."""
import json
import os
import re
import signal
import subprocess
import threading
import time

from registry import ROOT

# Warm cache of third-party crates compiled by the Kani compiler (built by ./setup.sh). Every run
# works on a private COPY of it inside its scratch directory (removed at exit), so concurrent runs
# never share a mutable target directory and nothing accumulates.
BASE_TARGET = os.environ.get("VERIF_KANI_TARGET", os.path.join(ROOT, ".cache", "kani-base"))
TARGET_DIR = BASE_TARGET


def private_target(scratch, log):
    """copy the warm base cache into the scratch dir and make it the target dir of this run"""
    global TARGET_DIR
    dest = os.path.join(scratch, "target")
    if os.path.isdir(BASE_TARGET):
        t0 = time.time()
        subprocess.run(["rsync", "-a", "--delete", BASE_TARGET.rstrip("/") + "/", dest + "/"], check=True)
        log.append("target dir: private copy of %s (%.1fs)" % (BASE_TARGET, time.time() - t0))
    else:
        os.makedirs(dest, exist_ok=True)
        log.append("target dir: no warm cache at %s, cold build" % BASE_TARGET)
    TARGET_DIR = dest
    return dest
RSS_CAP_KB = int(os.environ.get("VERIF_RSS_CAP_GB", "20")) * 1024 * 1024
JOBS = int(os.environ.get("VERIF_JOBS", "16"))


class Result:
    def __init__(self, ob):
        self.ob = ob
        self.status = "undecided"  # discharged | violated | undecided | canary_ok | canary_broken
        self.reason = ""
        self.failed_checks = []  # [{description, function, location, category}]
        self.n_checks = 0
        self.solver_s = 0.0
        self.total_s = 0.0
        self.covers_satisfied = 0
        self.raw = None
        self.cmd = ""

    def to_json(self):
        d = self.ob.to_json()
        d.update({
            "status": self.status,
            "reason": self.reason,
            "cbmc_checks": self.n_checks,
            "solver_s": round(self.solver_s, 3),
            "wall_s": round(self.total_s, 3),
            "covers_satisfied": self.covers_satisfied,
            "failed_checks": self.failed_checks,
        })
        return d


def _watchdog(stop, killed):
    """Kill any cbmc process above the RSS cap (no swap on this box)."""
    while not stop.wait(5.0):
        try:
            out = subprocess.run(["ps", "-eo", "pid,rss,comm"], capture_output=True, text=True).stdout
        except Exception:
            continue
        for line in out.splitlines()[1:]:
            parts = line.split(None, 2)
            if len(parts) == 3 and parts[2].strip() in ("cbmc", "goto-instrument"):
                if int(parts[1]) > RSS_CAP_KB:
                    try:
                        os.kill(int(parts[0]), signal.SIGKILL)
                        killed.append(int(parts[0]))
                    except Exception:
                        pass


def _load_costs():
    p = os.path.join(ROOT, "contracts", "costs.json")
    try:
        with open(p) as fh:
            return json.load(fh)
    except Exception:
        return {}


COSTS = _load_costs()


def _cost(o):
    """estimated seconds (scheduling hint only): measured value from contracts/costs.json, else a guess"""
    c = COSTS.get(o.name)
    if c is None:
        c = 200 if o.heavy else (60 if o.checks != "full" else 10)
    return max(float(c), 3.0)


def _group_key(o):
    return (o.crate, o.checks, "heavy" if (_cost(o) >= 110 or o.heavy) else "light")


def kani_cmd(crate_dir, harnesses, checks, timeout, json_out, jobs):
    cmd = [
        "cargo", "kani",
        "--target-dir", TARGET_DIR,
        "-Z", "function-contracts", "-Z", "stubbing", "-Z", "unstable-options",
        "--output-format", "terse",
        "--export-json", json_out,
        "--harness-timeout", "%ds" % timeout,
        "--exact",
    ]
    if jobs > 1:
        cmd += ["-j", str(jobs)]
    if checks == "functional":
        cmd += ["--no-memory-safety-checks"]
    elif checks == "noov":
        cmd += ["--no-memory-safety-checks", "--no-overflow-checks"]
    for h in harnesses:
        cmd += ["--harness", h]
    return cmd


def run(obs, scratch, scratch_repo, log, seed=0):
    groups = {}
    for o in obs:
        groups.setdefault(_group_key(o), []).append(o)
    results = []
    stop = threading.Event()
    killed = []
    wd = threading.Thread(target=_watchdog, args=(stop, killed), daemon=True)
    wd.start()
    env = dict(os.environ)
    env["CARGO_NET_OFFLINE"] = "true"
    env.pop("RUSTUP_TOOLCHAIN", None)
    try:
        # heavy groups first, then by size; groups are independent cargo invocations: up to three at a time
        keys = sorted(groups, key=lambda k: -sum(_cost(o) for o in groups[k]))
        par = min(3, len(keys))
        jobs_each = JOBS if par == 1 else (10 if par == 2 else 7)
        # split the cores over the first `par` groups in proportion to their weight (estimated cost: heavy 4, functional 2, full-check scalar harnesses 0.5)
        wt = {k: sum(_cost(o) for o in groups[k]) for k in keys}
        first = keys[:par]
        tot = sum(wt[k] for k in first) or 1
        share = {k: (max(1, int(round((JOBS + 2) * wt[k] / tot))) if k in first else 4) for k in keys}

        def one(key):
            crate, checks, weight = key
            g = groups[key]
            if seed:
                # the seed only permutes scheduling order; there are no random inputs
                g = sorted(g, key=lambda o: hash((seed, o.harness)))
            timeout = max(o.timeout for o in g)
            json_out = os.path.join(scratch, "kani-%s-%s-%s.json" % (crate, checks, weight))
            if os.path.exists(json_out):
                os.remove(json_out)
            crate_dir = os.path.join(scratch_repo, crate)
            nj = min(share[key], len(g))
            cmd = kani_cmd(crate_dir, [o.fqn for o in g], checks, timeout, json_out, nj)
            t0 = time.time()
            overall = timeout * (1 + len(g) // max(nj, 1)) + 900
            try:
                p = subprocess.run(cmd, cwd=crate_dir, env=env, capture_output=True, text=True, timeout=overall)
                out = p.stdout + "\n" + p.stderr
                rc = p.returncode
            except subprocess.TimeoutExpired as e:
                out = (e.stdout or b"").decode("utf8", "replace") if isinstance(e.stdout, bytes) else (e.stdout or "")
                out += "\n[driver] overall timeout %ds" % overall
                rc = -1
            dt = time.time() - t0
            with open(os.path.join(scratch, "kani-%s-%s-%s.log" % (crate, checks, weight)), "w") as fh:
                fh.write(" ".join(cmd) + "\n" + out)
            return ("kani %s [%s/%s]: %d harnesses, rc=%s, %.1fs" % (crate, checks, weight, len(g), rc, dt),
                    classify(g, json_out, out, rc, " ".join(cmd), dt))

        from concurrent.futures import ThreadPoolExecutor
        with ThreadPoolExecutor(max_workers=par) as ex:
            for line, res in ex.map(one, keys):
                log.append(line)
                results += res
    finally:
        stop.set()
    if killed:
        log.append("watchdog killed %d cbmc process(es) above RSS cap" % len(killed))
    return results


UNDECIDED_PATTERNS = re.compile(
    r"unwinding assertion|unsupported|not currently supported|recursion unwinding|"
    r"Kani does not support|unwind", re.I)


def classify(group, json_path, out, rc, cmd, dt):
    res = {o.fqn: Result(o) for o in group}
    for r in res.values():
        r.cmd = cmd
        r.total_s = dt
    data = None
    if os.path.exists(json_path):
        try:
            with open(json_path) as fh:
                data = json.load(fh)
        except Exception as e:  # truncated json
            data = None
    if data is None:
        reason = "no-json"
        if re.search(r"error(\[E\d+\])?:", out):
            m = re.search(r"(error(\[E\d+\])?:.*(?:\n.*){0,6})", out)
            reason = "compile-error: " + (m.group(1)[:600] if m else "")
        elif "timed out" in out or "overall timeout" in out:
            reason = "timeout"
        for r in res.values():
            r.status = "undecided"
            r.reason = reason
        return list(res.values())

    stats = {}
    for c in data.get("cbmc", []):
        stats[c["harness_id"]] = c.get("cbmc_stats") or {}
    errs = {e["harness_id"]: e for e in data.get("error_details", [])}
    seen = set()
    for hr in data.get("verification_results", {}).get("results", []):
        hid = hr["harness_id"]
        r = res.get(hid)
        if r is None:
            continue
        seen.add(hid)
        o = r.ob
        st = stats.get(hid, {})
        r.solver_s = float(st.get("runtime_decision_procedure_s", 0.0) or 0.0)
        r.total_s = hr.get("duration_ms", 0) / 1000.0
        checks = hr.get("checks", [])
        r.n_checks = len(checks)
        failed = []
        undecided_reason = ""
        unreachable_user = []
        covers_sat = 0
        covers_total = 0
        for c in checks:
            status = (c.get("status") or "").lower()
            desc = c.get("description", "")
            fn = c.get("function", "")
            cat = c.get("category", "")
            is_user = "__verif" in fn
            in_harness = fn.endswith("::" + o.harness) or ("::" + o.harness + "::") in fn
            if cat == "cover" or status in ("satisfied", "unsatisfiable"):
                if is_user:
                    covers_total += 1
                    if status == "satisfied":
                        covers_sat += 1
                continue
            if status == "failure":
                rec = {"description": desc, "function": fn, "category": cat,
                       "location": "%s:%s" % (c.get("location", {}).get("file", ""), c.get("location", {}).get("line", ""))}
                locfile = c.get("location", {}).get("file", "") or ""
                if locfile.endswith("kani_lib.c") or cat == "precondition_instance":
                    # allocator-model preconditions inside Kani's C library: not a statement about
                    # the (safe) Rust code under contract -> tool limit, never a violation
                    undecided_reason = "tool: %s in %s" % (desc[:120], locfile[-40:])
                elif cat in ("unwind", "unsupported_construct") or UNDECIDED_PATTERNS.search(desc):
                    undecided_reason = "%s: %s" % (cat or "tool", desc[:200])
                else:
                    failed.append(rec)
            elif status in ("undetermined", "solver_error"):
                undecided_reason = "%s: %s" % (status, desc[:200])
            elif status == "unreachable" and in_harness and cat == "assertion" and not desc.startswith("attempt to") \
                    and "index out of bounds" not in desc:
                # an assert!/assert_eq! written in the harness body itself that CBMC cannot reach
                unreachable_user.append(desc)
        r.covers_satisfied = covers_sat
        r.failed_checks = failed
        hstatus = (hr.get("status") or "").lower()
        e = errs.get(hid, {})
        if o.canary:
            own = [f for f in failed if o.harness in f["function"]]
            if own:
                r.status = "canary_ok"
            else:
                r.status = "canary_broken"
                r.reason = "canary harness did not fail (contradictory assumptions or unreachable code)"
            continue
        if undecided_reason:
            r.status = "undecided"
            r.reason = undecided_reason
        elif failed:
            r.status = "violated"
        elif hstatus != "success":
            r.status = "undecided"
            r.reason = "harness status %s (%s)" % (hr.get("status"), e.get("error_type", e.get("exit_status", "?")))
        elif r.n_checks == 0:
            r.status = "undecided"
            r.reason = "zero checks generated"
        elif unreachable_user:
            r.status = "undecided"
            r.reason = "vacuous: user assertion(s) UNREACHABLE: " + "; ".join(unreachable_user[:3])
        elif covers_sat < o.covers:
            r.status = "undecided"
            r.reason = "vacuous: only %d of %d cover points satisfied" % (covers_sat, o.covers)
        else:
            r.status = "discharged"
    for hid, r in res.items():
        if hid not in seen:
            r.status = "undecided"
            e = errs.get(hid, {})
            r.reason = "no result for harness (%s)" % (e.get("error_type") or e.get("exit_status") or "not run / timeout")
            if r.ob.canary:
                r.status = "canary_broken"
    return list(res.values())
