"""Minimal MessagePack reader (enough for rbx_reflection_database/database.msgpack)."""
import struct


def unpack(b, i=0):
    t = b[i]
    if t <= 0x7f:
        return t, i + 1
    if 0x80 <= t <= 0x8f:
        return _map(b, i + 1, t & 0x0f)
    if 0x90 <= t <= 0x9f:
        return _arr(b, i + 1, t & 0x0f)
    if 0xa0 <= t <= 0xbf:
        n = t & 0x1f
        return b[i + 1:i + 1 + n].decode("utf8", "replace"), i + 1 + n
    if t == 0xc0:
        return None, i + 1
    if t == 0xc2:
        return False, i + 1
    if t == 0xc3:
        return True, i + 1
    if t in (0xc4, 0xc5, 0xc6):
        w = {0xc4: 1, 0xc5: 2, 0xc6: 4}[t]
        n = int.from_bytes(b[i + 1:i + 1 + w], "big")
        return bytes(b[i + 1 + w:i + 1 + w + n]), i + 1 + w + n
    if t == 0xca:
        return struct.unpack(">f", b[i + 1:i + 5])[0], i + 5
    if t == 0xcb:
        return struct.unpack(">d", b[i + 1:i + 9])[0], i + 9
    if t in (0xcc, 0xcd, 0xce, 0xcf):
        w = {0xcc: 1, 0xcd: 2, 0xce: 4, 0xcf: 8}[t]
        return int.from_bytes(b[i + 1:i + 1 + w], "big"), i + 1 + w
    if t in (0xd0, 0xd1, 0xd2, 0xd3):
        w = {0xd0: 1, 0xd1: 2, 0xd2: 4, 0xd3: 8}[t]
        return int.from_bytes(b[i + 1:i + 1 + w], "big", signed=True), i + 1 + w
    if t in (0xd9, 0xda, 0xdb):
        w = {0xd9: 1, 0xda: 2, 0xdb: 4}[t]
        n = int.from_bytes(b[i + 1:i + 1 + w], "big")
        return b[i + 1 + w:i + 1 + w + n].decode("utf8", "replace"), i + 1 + w + n
    if t in (0xdc, 0xdd):
        w = 2 if t == 0xdc else 4
        return _arr(b, i + 1 + w, int.from_bytes(b[i + 1:i + 1 + w], "big"))
    if t in (0xde, 0xdf):
        w = 2 if t == 0xde else 4
        return _map(b, i + 1 + w, int.from_bytes(b[i + 1:i + 1 + w], "big"))
    if t >= 0xe0:
        return t - 256, i + 1
    if t in (0xd4, 0xd5, 0xd6, 0xd7, 0xd8):
        n = {0xd4: 1, 0xd5: 2, 0xd6: 4, 0xd7: 8, 0xd8: 16}[t]
        return ("ext", b[i + 1], bytes(b[i + 2:i + 2 + n])), i + 2 + n
    if t in (0xc7, 0xc8, 0xc9):
        w = {0xc7: 1, 0xc8: 2, 0xc9: 4}[t]
        n = int.from_bytes(b[i + 1:i + 1 + w], "big")
        return ("ext", b[i + 1 + w], bytes(b[i + 2 + w:i + 2 + w + n])), i + 2 + w + n
    raise ValueError("msgpack: unsupported type byte 0x%02x at %d" % (t, i))


def _arr(b, i, n):
    out = []
    for _ in range(n):
        v, i = unpack(b, i)
        out.append(v)
    return out, i


def _map(b, i, n):
    out = {}
    for _ in range(n):
        k, i = unpack(b, i)
        v, i = unpack(b, i)
        out[k if not isinstance(k, (list, dict)) else repr(k)] = v
    return out, i


def load(path):
    with open(path, "rb") as fh:
        b = fh.read()
    v, _ = unpack(b, 0)
    return v
