"""Counterexample extraction (Kani concrete playback) and native replay on the real code.

A violated Kani obligation is re-run with `--concrete-playback=print`; the byte vectors Kani
prints for every kani::any() are wrapped in the unit test Kani generates, the test is added
to the R1 child module of the *scratch copy* and executed natively with `cargo kani playback`
(ordinary rustc codegen, no CBMC): the harness then calls the real function with those concrete
inputs and its `assert!` panics if the failure is real.
"""
import json
import os
import re
import subprocess
import time

from registry import ROOT
import kani as kani_mod

REPLAY_DIR = os.path.join(ROOT, "replays")
PLAYBACK_TARGET = os.environ.get("VERIF_PLAYBACK_TARGET", os.path.join(ROOT, ".cache", "kani-playback"))

TEST_BLOCK = re.compile(r"```\n(.*?)```", re.S)


def _env():
    env = dict(os.environ)
    env["CARGO_NET_OFFLINE"] = "true"
    env.pop("RUSTUP_TOOLCHAIN", None)
    return env


def extract_counterexample(ob, scratch_repo, timeout):
    crate_dir = os.path.join(scratch_repo, ob.crate)
    cmd = [
        "cargo", "kani", "--target-dir", kani_mod.TARGET_DIR,
        "-Z", "function-contracts", "-Z", "stubbing", "-Z", "unstable-options", "-Z", "concrete-playback",
        "--concrete-playback=print", "--exact", "--harness", ob.fqn,
        "--harness-timeout", "%ds" % timeout,
    ]
    if ob.checks == "functional":
        cmd += ["--no-memory-safety-checks"]
    elif ob.checks == "noov":
        cmd += ["--no-memory-safety-checks", "--no-overflow-checks"]
    try:
        p = subprocess.run(cmd, cwd=crate_dir, env=_env(), capture_output=True, text=True, timeout=timeout + 600)
        out = p.stdout + "\n" + p.stderr
    except subprocess.TimeoutExpired:
        return None, "concrete playback run timed out"
    tests = []
    for m in TEST_BLOCK.finditer(out):
        body = m.group(1)
        if "kani::concrete_playback_run" in body and "Check for `cover`" not in body:
            # drop Kani's doc comment (a multi-line check description breaks `///` comments)
            tests.append(body[body.index("#[test]"):])
    tail = "\n".join(l for l in out.splitlines() if not re.match(r"^\s*(Check \d+|- (Status: SUCCESS|Description|Location))", l) and l.strip())
    return tests, tail[-6000:]


def inject_test(scratch_repo, ob, test_src):
    p = os.path.join(scratch_repo, ob.crate, ob.src_file)
    with open(p) as fh:
        s = fh.read()
    i = s.rstrip().rfind("}")
    s = s[:i] + "\n" + test_src + "\n}\n"
    with open(p, "w") as fh:
        fh.write(s)


def run_native(scratch_repo, ob, test_name, timeout=1800):
    crate_dir = os.path.join(scratch_repo, ob.crate)
    env = _env()
    env["CARGO_TARGET_DIR"] = PLAYBACK_TARGET
    env["RUST_BACKTRACE"] = "0"
    cmd = ["cargo", "kani", "playback", "--lib", "-Z", "concrete-playback", "-Z", "function-contracts",
           "-Z", "stubbing", "--", test_name, "--nocapture", "--test-threads", "1"]
    try:
        p = subprocess.run(cmd, cwd=crate_dir, env=env, capture_output=True, text=True, timeout=timeout)
    except subprocess.TimeoutExpired:
        return "timeout", ""
    out = p.stdout + "\n" + p.stderr
    m = re.search(r"test \S*%s \.\.\. (\w+)" % re.escape(test_name), out)
    verdict = m.group(1) if m else ("FAILED" if "panicked at" in out and "test result: FAILED" in out else "unknown")
    msg = ""
    pm = re.search(r"(thread '.*?' (?:\(\d+\) )?panicked at [^\n]*\n[^\n]*(?:\n[^\n]*)?)", out)
    if pm:
        msg = pm.group(1)
    if verdict == "unknown":
        msg = out[-3000:]
    return verdict, msg


def make_replay(prop, r, scratch, scratch_repo, log):
    os.makedirs(REPLAY_DIR, exist_ok=True)
    ob = r.ob
    path = os.path.join(REPLAY_DIR, "%s-%s.json" % (prop, ob.name))
    rec = {
        "property": prop,
        "obligation": ob.name,
        "harness": ob.fqn,
        "crate": ob.crate,
        "file": ob.src_file,
        "functions": ob.fns,
        "backend": ob.backend,
        "checks_mode": ob.checks,
        "failed_checks": getattr(r, "unknown_failed", r.failed_checks),
        "verifier_cmd": r.cmd,
        "created": time.strftime("%Y-%m-%dT%H:%M:%SZ", time.gmtime()),
        "repo_head": _git_head(),
    }
    found = False
    if ob.backend != "kani":
        rec["counterexample"] = None
        rec["verifier_output"] = (r.raw or "")[-8000:]
        rec["note"] = "back end gives no counterexample; no-failing-input-found"
    else:
        tests, tail = extract_counterexample(ob, scratch_repo, max(3 * ob.timeout, 1800))
        rec["verifier_output"] = tail
        if tests:
            test_src = tests[0]
            nm = re.search(r"fn (kani_concrete_playback_\w+)\s*\(", test_src)
            rec["playback_test"] = test_src
            rec["concrete_values"] = _parse_vals(test_src)
            if nm:
                inject_test(scratch_repo, ob, test_src)
                verdict, msg = run_native(scratch_repo, ob, nm.group(1))
                rec["native_replay"] = {"test": nm.group(1), "verdict": verdict, "message": msg}
                found = verdict == "FAILED"
                log.append("replay %s: native verdict %s" % (ob.name, verdict))
        else:
            rec["counterexample"] = None
            rec["note"] = "Kani produced no concrete values for this failure; no-failing-input-found"
    rec["failing_input_found"] = found
    with open(path, "w") as fh:
        json.dump(rec, fh, indent=1)
    return path, found


def _parse_vals(test_src):
    vals = []
    comment = None
    for line in test_src.splitlines():
        s = line.strip()
        if s.startswith("//") and not s.startswith("///"):
            comment = s[2:].strip()
        m = re.match(r"vec!\[([0-9,\s]*)\],?$", s)
        if m:
            b = [int(x) for x in m.group(1).replace(" ", "").split(",") if x]
            vals.append({"bytes": b, "as": comment})
            comment = None
    return vals


def _git_head():
    try:
        return subprocess.run(["git", "-C", "/repo", "rev-parse", "HEAD"], capture_output=True, text=True).stdout.strip()
    except Exception:
        return ""


def run_replay(path, repo, scratch_root):
    """./check --replay <path>: rebuild from /repo's current tree and re-execute the recorded inputs."""
    import shutil
    import importlib
    with open(path) as fh:
        rec = json.load(fh)
    sys_check = importlib.import_module("__main__")
    log = []
    scratch, scratch_repo, lock, obs = sys_check.prepare("replay", "quick", log)
    try:
        ob = next((o for o in obs if o.name == rec["obligation"] and rec["property"] in o.props), None)
        if ob is None:
            print("replay: obligation %s not found" % rec["obligation"])
            return 2
        if "playback_test" not in rec:
            print("replay: no concrete input recorded (no-failing-input-found); verifier output follows")
            print(rec.get("verifier_output", "")[-3000:])
            return 2
        nm = re.search(r"fn (kani_concrete_playback_\w+)\s*\(", rec["playback_test"])
        inject_test(scratch_repo, ob, rec["playback_test"])
        verdict, msg = run_native(scratch_repo, ob, nm.group(1))
        print("replay obligation=%s inputs=%s" % (ob.name, json.dumps(rec.get("concrete_values"))))
        print("native verdict: %s\n%s" % (verdict, msg))
        if verdict == "FAILED":
            print("VIOLATION property=%s replay=%s" % (rec["property"], path))
            return 1
        return 0 if verdict == "ok" else 2
    finally:
        shutil.rmtree(scratch, ignore_errors=True)
