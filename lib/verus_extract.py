"""R4: mechanical extraction + de-sugaring of the interleave loop nests for Verus."""
import json
import os
import re

from instrument import LostAnchor
from registry import CONTRACTS
import arms

FOR_RX = re.compile(r"for\s*\((\w+),\s*(\w+)\)\s*in\s*(\w+)\.(iter|iter_mut)\(\)\.enumerate\(\)\s*\{")


def region(src, sig_rx, end_rx, what):
    m = re.search(sig_rx, src)
    if not m:
        raise LostAnchor("R4: %s signature not found" % what)
    k = src.index("{", m.end() - 1)
    e = arms.match_brace(src, k)
    body = src[k + 1:e]
    m2 = re.search(end_rx, body)
    if not m2:
        raise LostAnchor("R4: end of region of %s not found" % what)
    return body[:m2.start()]


def desugar(text, inv, counter, log, what):
    """Rewrite every `for (I, X) in E.iter[_mut]().enumerate() { B }` (outermost first)."""
    out = ""
    pos = 0
    while True:
        m = FOR_RX.search(text, pos)
        if not m:
            out += text[pos:]
            break
        out += text[pos:m.start()]
        ivar, xvar, coll, kind = m.group(1), m.group(2), m.group(3), m.group(4)
        k = m.end() - 1
        e = arms.match_brace(text, k)
        ordinal = counter[0]
        counter[0] += 1
        ann = inv.get(str(ordinal))
        if ann is None:
            raise LostAnchor("R4: no invariant for loop %d of %s" % (ordinal, what))
        body = desugar(text[k + 1:e], inv, counter, log, what)
        if kind == "iter":
            head = "let %s = &%s[%s];" % (xvar, coll, ivar)
            tail = "%s += 1;" % ivar
        else:
            head = "let mut %s = %s[%s];" % (xvar, coll, ivar)
            body = re.sub(r"\*%s\b" % re.escape(xvar), xvar, body)
            tail = "%s[%s] = %s;\n%s += 1;" % (coll, ivar, xvar, ivar)
        out += "let mut %s: usize = 0;\nwhile %s < %s.len()\n%s\n{\n%s\n%s\n%s\n%s\n}" % (
            ivar, ivar, coll, "\n".join(ann["clauses"]), head, "\n".join(ann["proof"]), body, tail)
        log.append("R4 %s loop %d: `for (%s, %s) in %s.%s().enumerate()` de-sugared to an indexed while loop" % (what, ordinal, ivar, xvar, coll, kind))
        pos = e + 1
    return out


def build(scratch_repo, out_path, log):
    with open(os.path.join(scratch_repo, "rbx_binary", "src", "core.rs")) as fh:
        src = fh.read()
    with open(os.path.join(CONTRACTS, "verus", "interleave.inv.json")) as fh:
        inv = json.load(fh)
    w = region(src, r"fn\s+write_interleaved_bytes<const\s+N:\s*usize>\s*\(&mut\s+self,\s*values:\s*&\[\[u8;\s*N\]\]\)\s*->\s*io::Result<\(\)>\s*",
               r"self\.write_all\(&blob\)\?;", "write_interleaved_bytes")
    r = region(src, r"fn\s+read_interleaved_bytes<const\s+N:\s*usize>\s*\(&mut\s+self,\s*output:\s*&mut\s*\[\[u8;\s*N\]\]\)\s*->\s*io::Result<\(\)>\s*",
               r"Ok\(\(\)\)\s*$", "read_interleaved_bytes")
    # reader: the buffer is a parameter; drop its allocation and the read_exact call
    r2 = re.sub(r"let\s+mut\s+buffer\s*=\s*vec!\[0;\s*len\s*\*\s*N\];\s*self\.read_exact\(&mut\s+buffer\)\?;", "", r)
    if r2 == r:
        raise LostAnchor("R4: buffer allocation + read_exact of read_interleaved_bytes not found")
    log.append("R4 read_interleaved_bytes: dropped `let mut buffer = vec![0; len * N]; self.read_exact(&mut buffer)?;` (buffer is a parameter with buffer.len() == len * N)")
    w = re.sub(r"vec!\[0;\s*([^\]]+)\]", r"zeros(\1)", w)
    log.append("R4 write_interleaved_bytes: `vec![0; E]` -> `zeros(E)`")
    wd = desugar(w, inv["write"], [0], log, "write_interleaved_bytes")
    rd = desugar(r2, inv["read"], [0], log, "read_interleaved_bytes")
    zbodies = {}
    for fname, ty, marker in (("transform_i32", "i32", "@@ZZ32@@"), ("transform_i64", "i64", "@@ZZ64@@"),
                              ("untransform_i32", "i32", "@@UNZZ32@@"), ("untransform_i64", "i64", "@@UNZZ64@@")):
        zm = re.search(r"pub\s+fn\s+%s\s*\(value:\s*%s\)\s*->\s*%s\s*\{" % (fname, ty, ty), src)
        if not zm:
            raise LostAnchor("R4: %s not found" % fname)
        zk = src.index("{", zm.end() - 1)
        zbody = src[zk + 1:arms.match_brace(src, zk)].strip()
        if ";" in zbody:
            raise LostAnchor("R4: %s is no longer a single expression" % fname)
        zbodies[marker] = zbody
        log.append("R4 %s: body expression copied verbatim" % fname)
    with open(os.path.join(CONTRACTS, "verus", "interleave.template.rs")) as fh:
        t = fh.read()
    t = t.replace("@@WRITE@@", wd).replace("@@READ@@", rd)
    for marker, zbody in zbodies.items():
        t = t.replace(marker, zbody)
    with open(out_path, "w") as fh:
        fh.write(t)
    return out_path
