"""R3: verbatim extraction of the per-type column arms of rbx_binary.

  serializer/state.rs   serialize_properties:  match prop_info.prop_type { Type::<T> => { BODY } .. }
  deserializer/state.rs decode_prop_chunk:     match binary_type { Type::<T> => match canonical_type {
                                                   VariantType::<V> => { BODY } .. } .. }

Each BODY is copied character for character into a generated function inside the R1 child
module of the same file; the only textual rewrite is `self.` -> `self_.` (the shim that stands
for the two maps of the surrounding state struct). What is dropped: the `match` dispatch, the
`values` iterator pipeline that feeds the encode arms, construction of error messages
(closures `type_mismatch` / `invalid_value` return a fixed error), and the reflection lookup
that picks `canonical_type`. An arm that cannot be located raises LostAnchor (exit 2).
"""
import os
import re

from instrument import LostAnchor


def _skip_string(s, i):
    """s[i] == '"'; return index after the closing quote."""
    i += 1
    n = len(s)
    while i < n:
        c = s[i]
        if c == "\\":
            i += 2
            continue
        if c == '"':
            return i + 1
        i += 1
    raise LostAnchor("R3: unterminated string literal")


def match_brace(s, i):
    """s[i] == '{'; return index of the matching '}' (skips strings, chars, comments)."""
    assert s[i] == "{"
    depth = 0
    n = len(s)
    while i < n:
        c = s[i]
        if c == '"':
            i = _skip_string(s, i)
            continue
        if c == "r" and re.match(r'r#*"', s[i:i + 8]) and not (i > 0 and (s[i - 1].isalnum() or s[i - 1] == "_")):
            m = re.match(r'r(#*)"', s[i:])
            close = '"' + m.group(1)
            j = s.index(close, i + len(m.group(0)))
            i = j + len(close)
            continue
        if c == "'":
            # char literal ('x', '\n', '\'') vs lifetime ('a)
            m = re.match(r"'(\\.[^']*|[^\\'])'", s[i:])
            if m:
                i += len(m.group(0))
                continue
            i += 1
            continue
        if c == "/" and s[i:i + 2] == "//":
            j = s.find("\n", i)
            i = n if j < 0 else j
            continue
        if c == "/" and s[i:i + 2] == "/*":
            i = s.index("*/", i) + 2
            continue
        if c == "{":
            depth += 1
        elif c == "}":
            depth -= 1
            if depth == 0:
                return i
        i += 1
    raise LostAnchor("R3: unbalanced braces")


def top_level_arms(body, arm_rx):
    """Yield (name, start_of_block_brace, end_brace) for arms `<pat> => {` at depth 0 of body."""
    i = 0
    n = len(body)
    depth = 0
    out = []
    while i < n:
        c = body[i]
        if c == '"':
            i = _skip_string(body, i)
            continue
        if c == "/" and body[i:i + 2] == "//":
            j = body.find("\n", i)
            i = n if j < 0 else j
            continue
        if c == "'":
            m = re.match(r"'(\\.[^']*|[^\\'])'", body[i:])
            i += len(m.group(0)) if m else 1
            continue
        if depth == 0:
            m = arm_rx.match(body, i)
            if m:
                j = m.end() - 1  # at '{' or at 'match'
                out.append((m.group(1), m))
                # skip to the block
                k = body.index("{", m.end() - 1)
                e = match_brace(body, k)
                out[-1] = (m.group(1), k, e)
                i = e + 1
                continue
        if c == "{":
            depth += 1
        elif c == "}":
            depth -= 1
        i += 1
    return out


ENC_ARM = re.compile(r"Type::(\w+)\s*=>\s*\{")
DEC_ARM = re.compile(r"Type::(\w+)\s*=>\s*match\s+canonical_type\s*\{")
DEC_INNER = re.compile(r"VariantType::(\w+)\s*=>\s*\{")
DEC_CATCHALL = re.compile(r"invalid_type\s*=>\s*\{")
# (wire type, declared type) pairs that the property statements name explicitly (C04: "Int32 for
# Int64, Float32 for Float64"): when the reader has no arm for such a pair the real `match` falls
# into the catch-all arm of that wire type, so the generated function is that catch-all arm.
REQUIRED_PAIRS = [("Int32", "Int64"), ("Float32", "Float64")]


def extract_encode_arms(src):
    m = re.search(r"match\s+prop_info\.prop_type\s*\{", src)
    if not m:
        raise LostAnchor("R3: `match prop_info.prop_type {` not found in serializer/state.rs")
    k = m.end() - 1
    e = match_brace(src, k)
    body = src[k + 1:e]
    arms = {}
    for name, b, be in top_level_arms(body, ENC_ARM):
        arms[name] = body[b + 1:be]
    return arms


def extract_decode_arms(src):
    m = re.search(r"let\s+canonical_type\s*=\s*property\.ty\s*;\s*match\s+binary_type\s*\{", src)
    if not m:
        raise LostAnchor("R3: `match binary_type {` not found in deserializer/state.rs")
    k = m.end() - 1
    e = match_brace(src, k)
    body = src[k + 1:e]
    arms = {}
    catchall = {}
    for name, b, be in top_level_arms(body, DEC_ARM):
        inner = body[b + 1:be]
        for vname, ib, ibe in top_level_arms(inner, DEC_INNER):
            arms[(name, vname)] = inner[ib + 1:ibe]
        for _n, ib, ibe in top_level_arms(inner, re.compile(r"(invalid_type)\s*=>\s*\{")):
            catchall[name] = inner[ib + 1:ibe]
    for t, v in REQUIRED_PAIRS:
        if (t, v) not in arms and t in catchall:
            arms[(t, v)] = "let invalid_type = VariantType::%s; /* no arm for this pair: catch-all arm of Type::%s, verbatim */ %s" % (v, t, catchall[t])
    return arms


def extract_decode_prefix(src):
    """Region of decode_prop_chunk from the first statement to (not including)
    `let property = if let Some(property) = find_canonical_property(` ."""
    m = re.search(r"pub\(super\)\s+fn\s+decode_prop_chunk\s*\(&mut self,\s*mut chunk:\s*&\[u8\]\)\s*->\s*Result<\(\),\s*InnerError>\s*\{", src)
    if not m:
        raise LostAnchor("R3: decode_prop_chunk signature not found")
    start = m.end()
    m2 = re.search(r"\n\s*let\s+property\s*=\s*if\s+let\s+Some\(property\)\s*=\s*find_canonical_property\(", src[start:])
    if not m2:
        raise LostAnchor("R3: end of decode_prop_chunk prefix not found")
    return src[start:start + m2.start()]


SELF_RX = re.compile(r"\bself(\s*)\.")

ENC_SHIMS = r'''
// ---- R3 shims (encode side) -------------------------------------------------
pub(crate) struct EncErr;

/// stands for SerializerState.id_to_referent / shared_string_ids (assoc lists, <= 2 entries)
pub(crate) struct EncRefMap {
    pub keys: [Ref; 2],
    pub vals: [i32; 2],
    pub n: usize,
}
impl EncRefMap {
    pub fn get(&self, k: &Ref) -> Option<&i32> {
        if self.n > 0 && self.keys[0] == *k {
            return Some(&self.vals[0]);
        }
        if self.n > 1 && self.keys[1] == *k {
            return Some(&self.vals[1]);
        }
        None
    }
}
pub(crate) struct EncSsMap {
    pub keys: Vec<SharedString>,
    pub vals: Vec<u32>,
}
impl EncSsMap {
    pub fn get(&self, k: &SharedString) -> Option<&u32> {
        let mut i = 0;
        while i < self.keys.len() {
            if self.keys[i] == *k {
                return Some(&self.vals[i]);
            }
            i += 1;
        }
        None
    }
}
pub(crate) struct EncShim {
    pub id_to_referent: EncRefMap,
    pub shared_string_ids: EncSsMap,
}
impl EncShim {
    pub fn empty() -> Self {
        EncShim {
            id_to_referent: EncRefMap { keys: [Ref::none(), Ref::none()], vals: [0, 0], n: 0 },
            shared_string_ids: EncSsMap { keys: Vec::new(), vals: Vec::new() },
        }
    }
}
fn enc_shim_error() -> InnerError {
    InnerError::Io { source: std::io::Error::from(std::io::ErrorKind::InvalidInput) }
}
'''

DEC_SHIMS = r'''
// ---- R3 shims (decode side) -------------------------------------------------
pub(crate) struct DecErr;

pub(crate) struct DecBuilder {
    pub referent: Ref,
}
impl DecBuilder {
    pub fn referent(&self) -> Ref {
        self.referent
    }
}
/// stands for deserializer::state::Instance: records what add_property was given
pub(crate) struct DecInstance {
    pub builder: DecBuilder,
    pub out: Option<Variant>,
    pub count: u8,
}
/// stands for DeserializerState.instances_by_ref (assoc list, <= 2 entries)
pub(crate) struct DecMap {
    pub keys: [i32; 2],
    pub n: usize,
    pub inst: [DecInstance; 2],
}
impl DecMap {
    pub fn get_mut(&mut self, k: &i32) -> Option<&mut DecInstance> {
        if self.n > 0 && self.keys[0] == *k {
            return Some(&mut self.inst[0]);
        }
        if self.n > 1 && self.keys[1] == *k {
            return Some(&mut self.inst[1]);
        }
        None
    }
    pub fn get(&self, k: &i32) -> Option<&DecInstance> {
        if self.n > 0 && self.keys[0] == *k {
            return Some(&self.inst[0]);
        }
        if self.n > 1 && self.keys[1] == *k {
            return Some(&self.inst[1]);
        }
        None
    }
}
pub(crate) struct DecShim {
    pub instances_by_ref: DecMap,
    pub shared_strings: Vec<SharedString>,
}
impl DecShim {
    pub fn new(keys: [i32; 2], n: usize, r0: Ref, r1: Ref) -> Self {
        DecShim {
            instances_by_ref: DecMap {
                keys,
                n,
                inst: [
                    DecInstance { builder: DecBuilder { referent: r0 }, out: None, count: 0 },
                    DecInstance { builder: DecBuilder { referent: r1 }, out: None, count: 0 },
                ],
            },
            shared_strings: Vec::new(),
        }
    }
}
pub(crate) struct DecTypeInfo<const N: usize> {
    pub type_id: u32,
    pub referents: [i32; N],
    pub type_name: &'static str,
}
/// stands for CanonicalProperty (`property`)
pub(crate) struct DecProp {
    pub name: &'static str,
}
/// stands for deserializer::state::add_property without migration: the value reaches the builder unchanged
fn add_property(instance: &mut DecInstance, _property: &DecProp, value: Variant) {
    core::mem::forget(core::mem::replace(&mut instance.out, Some(value)));
    instance.count += 1;
}
'''


ENC_STATE_SHIMS = r'''
// ---- R3 shims for write_header / serialize_end (SerializerState fields they touch) -----------
pub(crate) struct EncLen {
    pub n: usize,
}
impl EncLen {
    pub fn len(&self) -> usize {
        self.n
    }
}
pub(crate) struct EncTypeInfos {
    pub values: EncLen,
}
pub(crate) struct EncState {
    pub output: Vec<u8>,
    pub type_infos: EncTypeInfos,
    pub relevant_instances: EncLen,
}
'''


def extract_method_body(src, name, what):
    m = re.search(r"pub\s+fn\s+%s\s*\(&mut\s+self\)\s*->\s*Result<\(\),\s*InnerError>\s*\{" % name, src)
    if not m:
        raise LostAnchor("R3: %s not found in %s" % (name, what))
    k = m.end() - 1
    e = match_brace(src, k)
    return src[k + 1:e]


def gen_enc_state(ssrc):
    out = [ENC_STATE_SHIMS]
    for name in ("write_header", "serialize_end"):
        body = SELF_RX.sub(r"self_\1.", extract_method_body(ssrc, name, "serializer/state.rs"))
        out.append('''
// R3: body of SerializerState::%(n)s, verbatim (`self.` -> `self_.`)
fn es_%(n)s_inner(self_: &mut EncState) -> Result<(), InnerError> {%(b)s}
pub(crate) fn es_%(n)s(self_: &mut EncState) -> Result<(), EncErr> {
    match es_%(n)s_inner(self_) {
        Ok(()) => Ok(()),
        Err(e) => {
            core::mem::forget(e);
            Err(EncErr)
        }
    }
}
''' % {"n": name, "b": body})
    return "\n".join(out)


def gen_encode(arms):
    out = [ENC_SHIMS]
    for name in sorted(arms):
        body = SELF_RX.sub(r"self_\1.", arms[name])
        out.append('''
// R3: arm `Type::%(n)s` of serialize_properties, body verbatim
fn enc_%(n)s_inner<'a, I>(values: I, chunk: &mut ChunkBuilder, self_: &EncShim) -> Result<(), InnerError>
where
    I: ExactSizeIterator<Item = (usize, Cow<'a, Variant>)>,
{
    let type_mismatch = |i: usize, bad_value: &Variant, valid_type_names: &'static str| -> Result<(), InnerError> {
        Err(enc_shim_error())
    };
    let invalid_value = |i: usize, bad_value: &Variant| -> InnerError { enc_shim_error() };
    {%(body)s}
    Ok(())
}
pub(crate) fn enc_%(n)s<'a, I>(values: I, chunk: &mut ChunkBuilder, self_: &EncShim) -> Result<(), EncErr>
where
    I: ExactSizeIterator<Item = (usize, Cow<'a, Variant>)>,
{
    match enc_%(n)s_inner(values, chunk, self_) {
        Ok(()) => Ok(()),
        Err(e) => {
            core::mem::forget(e);
            Err(EncErr)
        }
    }
}
''' % {"n": name, "body": body})
    return "\n".join(out)


AP_SHIMS = r'''
// ---- R3 shims for add_property (the real one is extracted below as ap_add_property) ----------
fn ap_code(k: &str) -> u8 {
    if k == "New" {
        1
    } else if k == "Old" {
        2
    } else {
        0
    }
}
/// stands for InstanceBuilder: an ordered list of (name, value) pushes; `has_property` scans it
pub(crate) struct ApBuilder {
    pub n: usize,
    pub keys: [u8; 3],
    pub vals: [Option<Variant>; 3],
}
impl ApBuilder {
    pub fn new() -> Self {
        ApBuilder { n: 0, keys: [0; 3], vals: [None, None, None] }
    }
    pub fn has_property<K: AsRef<str>>(&self, key: K) -> bool {
        let c = ap_code(key.as_ref());
        (self.n > 0 && self.keys[0] == c) || (self.n > 1 && self.keys[1] == c) || (self.n > 2 && self.keys[2] == c)
    }
    pub fn add_property<K: AsRef<str>, V: Into<Variant>>(&mut self, key: K, value: V) {
        self.keys[self.n] = ap_code(key.as_ref());
        core::mem::forget(core::mem::replace(&mut self.vals[self.n], Some(value.into())));
        self.n += 1;
    }
}
pub(crate) struct ApInstance {
    pub builder: ApBuilder,
}
/// stands for CanonicalProperty
pub(crate) struct ApCanonical<'db> {
    pub name: &'static str,
    pub migration: Option<&'db PropertySerialization<'db>>,
}
'''


def extract_add_property(src):
    m = re.search(r"fn\s+add_property\s*\(\s*instance:\s*&mut\s+Instance,\s*canonical_property:\s*&CanonicalProperty,\s*value:\s*Variant\s*\)\s*\{", src)
    if not m:
        raise LostAnchor("R3: add_property signature not found in deserializer/state.rs")
    k = m.end() - 1
    e = match_brace(src, k)
    return src[k + 1:e]


def gen_add_property(body):
    return AP_SHIMS + '''
// R3: body of deserializer::state::add_property, verbatim
pub(crate) fn ap_add_property(instance: &mut ApInstance, canonical_property: &ApCanonical, value: Variant) {
%s
}
''' % body


DP_SHIMS = r'''
// ---- R3 shims for the head of decode_prop_chunk ------------------------------------------------
pub(crate) struct DpBuilder {
    pub referent: Ref,
    pub named: u8,
}
impl DpBuilder {
    pub fn set_name<S: AsRef<str>>(&mut self, _name: S) {
        self.named += 1;
    }
}
pub(crate) struct DpInstance {
    pub builder: DpBuilder,
}
pub(crate) struct DpMap {
    pub keys: [i32; 2],
    pub inst: [DpInstance; 2],
}
impl DpMap {
    pub fn get_mut(&mut self, k: &i32) -> Option<&mut DpInstance> {
        if self.keys[0] == *k {
            return Some(&mut self.inst[0]);
        }
        if self.keys[1] == *k {
            return Some(&mut self.inst[1]);
        }
        None
    }
}
/// stands for DeserializerState.type_infos with exactly one declared class
pub(crate) struct DpTypeInfos {
    pub id: u32,
    pub info: DecTypeInfo<2>,
}
impl DpTypeInfos {
    pub fn get(&self, k: &u32) -> Option<&DecTypeInfo<2>> {
        if *k == self.id {
            Some(&self.info)
        } else {
            None
        }
    }
}
pub(crate) struct DpSet {
    pub seen: u32,
}
impl DpSet {
    pub fn insert(&mut self, _b: u8) -> bool {
        self.seen += 1;
        true
    }
}
pub(crate) struct DpState {
    pub type_infos: DpTypeInfos,
    pub instances_by_ref: DpMap,
    pub unknown_type_ids: DpSet,
}
'''


def gen_dp_head(dsrc):
    head = SELF_RX.sub(r"self_\1.", extract_decode_prefix(dsrc))
    return DP_SHIMS + '''
// R3: head of decode_prop_chunk (first statement .. just before the canonical-property lookup), verbatim
fn dp_head_inner(mut chunk: &[u8], self_: &mut DpState, reached: &mut Option<Type>) -> Result<(), InnerError> {
%s
    *reached = Some(binary_type);
    Ok(())
}
pub(crate) fn dp_head(chunk: &[u8], self_: &mut DpState, reached: &mut Option<Type>) -> Result<(), DecErr> {
    match dp_head_inner(chunk, self_, reached) {
        Ok(()) => Ok(()),
        Err(e) => {
            core::mem::forget(e);
            Err(DecErr)
        }
    }
}
''' % head


def gen_decode(arms, prefix):
    out = [DEC_SHIMS]
    for (t, v) in sorted(arms):
        body = SELF_RX.sub(r"self_\1.", arms[(t, v)])
        out.append('''
// R3: arm `Type::%(t)s` / `VariantType::%(v)s` of decode_prop_chunk, body verbatim
fn dec_%(t)s_%(v)s_inner<const N: usize>(mut chunk: &[u8], type_info: &DecTypeInfo<N>, self_: &mut DecShim, property: DecProp, prop_name: String) -> Result<(), InnerError> {
    {%(body)s}
    Ok(())
}
pub(crate) fn dec_%(t)s_%(v)s<const N: usize>(chunk: &[u8], type_info: &DecTypeInfo<N>, self_: &mut DecShim) -> Result<(), DecErr> {
    match dec_%(t)s_%(v)s_inner(chunk, type_info, self_, DecProp { name: "" }, String::new()) {
        Ok(()) => Ok(()),
        Err(e) => {
            core::mem::forget(e);
            Err(DecErr)
        }
    }
}
''' % {"t": t, "v": v, "body": body})
    return "\n".join(out)


def generate(scratch_repo, log):
    """returns (generated_obligations, {(crate, src_file): text})"""
    ser = os.path.join(scratch_repo, "rbx_binary", "src", "serializer", "state.rs")
    de = os.path.join(scratch_repo, "rbx_binary", "src", "deserializer", "state.rs")
    with open(ser) as fh:
        ssrc = fh.read()
    with open(de) as fh:
        dsrc = fh.read()
    enc = extract_encode_arms(ssrc)
    dec = extract_decode_arms(dsrc)
    log.append("R3 serializer/state.rs: %d encode arms extracted verbatim: %s" % (len(enc), " ".join(sorted(enc))))
    log.append("R3 deserializer/state.rs: %d decode arms extracted verbatim: %s"
               % (len(dec), " ".join("%s/%s" % k for k in sorted(dec))))
    text = {
        ("rbx_binary", "src/serializer/state.rs"): gen_encode(enc) + gen_enc_state(ssrc),
        ("rbx_binary", "src/deserializer/state.rs"): gen_decode(dec, None) + gen_add_property(extract_add_property(dsrc)) + gen_dp_head(dsrc),
    }
    log.append("R3 deserializer/state.rs: body of add_property extracted verbatim (ap_add_property)")
    log.append("R3 serializer/state.rs: bodies of write_header and serialize_end extracted verbatim (es_*)")
    log.append("R3 deserializer/state.rs: head of decode_prop_chunk (up to the canonical-property lookup) extracted verbatim (dp_head)")
    p = os.path.join(scratch_repo, "rbx_reflection", "src", "lib.rs")
    with open(p, "a") as fh:
        fh.write("\n#[cfg(kani)]\npub use migration::__verif::mk_migration;\n")
    log.append("R3 rbx_reflection/src/lib.rs: appended `pub use migration::__verif::mk_migration` (cfg(kani))")
    # re-exports so that the harness module at the crate root can reach both sides
    for mod_rs, alias in (("serializer/mod.rs", "__verif_enc"), ("deserializer/mod.rs", "__verif_dec")):
        p = os.path.join(scratch_repo, "rbx_binary", "src", mod_rs)
        with open(p, "a") as fh:
            fh.write("\n#[cfg(kani)]\npub(crate) use self::state::__verif as %s;\n" % alias)
        log.append("R3 %s: appended `pub(crate) use self::state::__verif as %s` (cfg(kani))" % (mod_rs, alias))
    # record which arms exist for the harness side (lost arms -> obligations undecided, not violated)
    return [], text


# ======================================================================================
# R3b: attribute reader / writer arms (rbx_types/src/attributes/{writer,reader}.rs)
#   writer.rs  write_attributes:  for (name, variant) in map { <HEAD> match variant { Variant::X(..) => BODY, .. } }
#   reader.rs  read_attributes:   for _ in 0..len { <HEAD> let value = match ty { VariantType::X => BODY, .. }; .. }
# Each arm `PATTERN => BODY` is copied verbatim into a single-arm `match`; the two HEAD regions
# (entry name + type id) are copied verbatim into functions of their own. Dropped: the loop over
# the BTreeMap, `attributes.insert(key, value)`, the count prefix (covered for the empty map by
# calling the real functions).
# ======================================================================================

def split_match_arms(body):
    """Split the inside of a `match x { ... }` into (pattern, arm_text) at depth 0."""
    arms = []
    i = 0
    n = len(body)

    def skip_ws_comments(i):
        while i < n:
            if body[i].isspace():
                i += 1
            elif body[i:i + 2] == "//":
                j = body.find("\n", i)
                i = n if j < 0 else j + 1
            else:
                break
        return i

    while True:
        i = skip_ws_comments(i)
        if i >= n:
            break
        start = i
        # pattern up to `=>` at depth 0
        depth = 0
        while i < n:
            c = body[i]
            if c == '"':
                i = _skip_string(body, i)
                continue
            if c in "([{":
                depth += 1
            elif c in ")]}":
                depth -= 1
            elif c == "=" and body[i:i + 2] == "=>" and depth == 0:
                break
            i += 1
        if i >= n:
            raise LostAnchor("R3b: arm without `=>`")
        pattern = body[start:i].strip()
        i += 2
        # body up to `,` at depth 0 (or end); a block body may be followed by a postfix (.into())
        depth = 0
        bstart = i
        while i < n:
            c = body[i]
            if c == '"':
                i = _skip_string(body, i)
                continue
            if c == "'":
                m = re.match(r"'(\\.[^']*|[^\\'])'", body[i:])
                i += len(m.group(0)) if m else 1
                continue
            if c == "/" and body[i:i + 2] == "//":
                j = body.find("\n", i)
                i = n if j < 0 else j
                continue
            if c in "([{":
                depth += 1
            elif c in ")]}":
                depth -= 1
                if depth == 0 and c == "}":
                    # block ended: arm ends here unless a postfix / comma follows
                    j = skip_ws_comments(i + 1)
                    if j < n and body[j] == ".":
                        i += 1
                        continue
                    if j < n and body[j] == ",":
                        i = j
                        break
                    i += 1
                    break
            elif c == "," and depth == 0:
                break
            i += 1
        arm_body = body[bstart:i].strip()
        arms.append((pattern, arm_body))
        if i < n and body[i] == ",":
            i += 1
    return arms


def _fn_region(src, fn_rx, what):
    m = re.search(fn_rx, src)
    if not m:
        raise LostAnchor("R3b: %s not found" % what)
    k = src.index("{", m.end() - 1)
    e = match_brace(src, k)
    return src[k + 1:e]


def extract_attr_writer(src):
    body = _fn_region(src, r"pub\(crate\)\s+fn\s+write_attributes<W:\s*Write>\s*\(", "write_attributes")
    m = re.search(r"for\s*\(name,\s*variant\)\s*in\s*map\s*\{", body)
    if not m:
        raise LostAnchor("R3b: writer entry loop not found")
    k = m.end() - 1
    e = match_brace(body, k)
    loop = body[k + 1:e]
    mm = re.search(r"match\s+variant\s*\{", loop)
    if not mm:
        raise LostAnchor("R3b: `match variant {` not found")
    head = loop[:mm.start()]
    mk = mm.end() - 1
    me = match_brace(loop, mk)
    arms = {}
    for pat, abody in split_match_arms(loop[mk + 1:me]):
        vm = re.match(r"Variant::(\w+)\s*\(", pat)
        if vm:
            arms[vm.group(1)] = (pat, abody)
    return head, arms


def extract_attr_reader(src):
    body = _fn_region(src, r"pub\(crate\)\s+fn\s+read_attributes<R:\s*Read>\s*\(", "read_attributes")
    m = re.search(r"for\s+_\s+in\s+0\.\.len\s*\{", body)
    if not m:
        raise LostAnchor("R3b: reader entry loop not found")
    k = m.end() - 1
    e = match_brace(body, k)
    loop = body[k + 1:e]
    mm = re.search(r"let\s+value\s*=\s*match\s+ty\s*\{", loop)
    if not mm:
        raise LostAnchor("R3b: `let value = match ty {` not found")
    head = loop[:mm.start()]
    mk = mm.end() - 1
    me = match_brace(loop, mk)
    arms = {}
    for pat, abody in split_match_arms(loop[mk + 1:me]):
        vm = re.match(r"VariantType::(\w+)$", pat)
        if vm:
            arms[vm.group(1)] = (pat, abody)
    return head, arms


def gen_attr_writer(head, arms):
    out = ['''
// ---- R3b: write_attributes, entry head (name + type id), verbatim
pub(crate) fn aw_head<W: Write>(name: &String, variant: &Variant, mut writer: W) -> Result<(), AttributeError> {
%s
    Ok(())
}
''' % head]
    for name in sorted(arms):
        pat, body = arms[name]
        out.append('''
// R3b: arm `%(pat)s` of write_attributes, verbatim
pub(crate) fn aw_%(n)s<W: Write>(variant: &Variant, mut writer: W) -> Result<(), AttributeError> {
    match variant {
        %(pat)s => %(body)s,
        _ => unreachable!(),
    }
    Ok(())
}
''' % {"n": name, "pat": pat, "body": body})
    return "\n".join(out)


def gen_attr_reader(head, arms):
    out = ['''
// ---- R3b: read_attributes, entry head (name + type id), verbatim
pub(crate) fn ar_head<R: Read>(mut value: R) -> Result<(String, VariantType), AttributeError> {
%s
    Ok((key, ty))
}
''' % head]
    for name in sorted(arms):
        pat, body = arms[name]
        out.append('''
// R3b: arm `%(pat)s` of read_attributes, verbatim
pub(crate) fn ar_%(n)s<R: Read>(mut value: R) -> Result<Variant, AttributeError> {
    let ty = %(pat)s;
    let value: Variant = match ty {
        %(pat)s => %(body)s,
        _ => unreachable!(),
    };
    Ok(value)
}
''' % {"n": name, "pat": pat, "body": body})
    return "\n".join(out)


_generate_binary = generate


def generate(scratch_repo, log):  # noqa: F811
    obs, text = _generate_binary(scratch_repo, log)
    w = os.path.join(scratch_repo, "rbx_types", "src", "attributes", "writer.rs")
    r = os.path.join(scratch_repo, "rbx_types", "src", "attributes", "reader.rs")
    with open(w) as fh:
        whead, warms = extract_attr_writer(fh.read())
    with open(r) as fh:
        rhead, rarms = extract_attr_reader(fh.read())
    log.append("R3b attributes/writer.rs: entry head + %d arms extracted verbatim: %s" % (len(warms), " ".join(sorted(warms))))
    log.append("R3b attributes/reader.rs: entry head + %d arms extracted verbatim: %s" % (len(rarms), " ".join(sorted(rarms))))
    text[("rbx_types", "src/attributes/writer.rs")] = gen_attr_writer(whead, warms)
    text[("rbx_types", "src/attributes/reader.rs")] = gen_attr_reader(rhead, rarms)
    return obs, text


# ======================================================================================
# R6: constants generated from rbx_reflection_database/database.msgpack on every run
# ======================================================================================

def gen_font_items(scratch_repo, log):
    import msgpack_min
    db = msgpack_min.load(os.path.join(scratch_repo, "rbx_reflection_database", "database.msgpack"))
    try:
        enums = db[2]
        items = enums["Font"][1]
    except Exception as e:  # layout of the database changed
        raise LostAnchor("R6: Enum.Font not found in database.msgpack (%s)" % e)
    pairs = sorted((v, k) for k, v in items.items())
    log.append("R6 database.msgpack: Enum.Font has %d items, values %s" % (len(pairs), " ".join(str(v) for v, _ in pairs)))
    lines = ["// R6: Enum.Font items of rbx_reflection_database/database.msgpack at this run"]
    # one harness per item: Kani's assert! assumes its condition afterwards, so items sharing a
    # harness would hide each other once one of them fails
    for v, k in pairs:
        lines.append("//@ obligation: U9.perform.font.i%d" % v)
        lines.append("//@ props: C15")
        lines.append("//@ fns: PropertyMigration::perform[FontToFontFace]")
        lines.append("//@ kind: complete")
        lines.append("//@ covers: 1")
        lines.append("//@ checks: functional")
        lines.append("//@ timeout: 900")
        lines.append("//@ note: Enum.Font item %d (%s) of the bundled database (all %d items are enumerated, one obligation each) migrates to a Font with a non-empty family" % (v, k, len(pairs)))
        lines.append("#[kani::proof]")
        lines.append("#[kani::unwind(3)]")
        lines.append("fn u9_perform_font_i%d() {" % v)
        lines.append("    let ok = font_ok(%d);" % v)
        lines.append('    kani::cover!(true, "end of harness reached");')
        lines.append('    assert!(ok, "Enum.Font item %d (%s) is migratable");' % (v, k))
        lines.append("}")
        lines.append("")
    return "\n".join(lines) + "\n"


_generate_attr = generate


def generate(scratch_repo, log):  # noqa: F811
    import instrument
    obs, text = _generate_attr(scratch_repo, log)
    instrument.GENERATED["font_items"] = gen_font_items(scratch_repo, log)
    return obs, text
