"""Turn classified obligation results into VIOLATION / KNOWN-FINDING lines, replay files,
the evidence file and the exit code."""
import fnmatch
import glob
import json
import os
import re
import time

from registry import ROOT

EVIDENCE_DIR = os.path.join(ROOT, "evidence")
REPLAY_DIR = os.path.join(ROOT, "replays")
KNOWN = os.path.join(ROOT, "known_findings.txt")

ASSUMPTIONS = {
    "A1": "A1 rustc/Kani/CBMC/Verus/Z3 are sound; Kani's models of Vec/alloc/memcpy and of float operations match the target.",
    "A2": "A2 safe Rust is memory-safe (for obligations run with --no-memory-safety-checks).",
    "A3": "A3 std I/O helpers (read_exact, Take::read_to_end, read_to_string, write_all) and integer formatting behave as documented.",
    "A4": "A4 lz4/zstd (C code via FFI) are not verified; compressed chunk modes are covered only through assumed contracts or not at all.",
    "A5": "A5 R3 arm-extraction shims: instances_by_ref behaves as a map from INST referents to builders; add_property appends; the match dispatch selects the arm named by the wire type byte.",
    "A6": "A6 the reflection database is arbitrary but fixed; nothing about its contents is proved.",
    "A7": "A7 atomics are sequentialised by Kani; no obligation speaks about interleavings.",
    "A8": "A8 bounded obligations hold only up to their stated bound and are never counted as proved.",
}


def load_known():
    """known: property=C15 obligation=U9.x match="substring of failing check" -- text
       fixed: property=C01 <commit> text          (suppresses nothing)"""
    known = []
    if not os.path.exists(KNOWN):
        return known
    with open(KNOWN) as fh:
        for line in fh:
            line = line.strip()
            if not line.startswith("known:"):
                continue
            m = re.match(r'known:\s*property=(\S+)\s+obligation=(\S+)\s+match="([^"]*)"\s*(?:--\s*(.*))?$', line)
            if m:
                known.append({"property": m.group(1), "obligation": m.group(2), "match": m.group(3), "text": m.group(4) or ""})
    return known


def scan_assumptions():
    """Mechanical scan of /verif/contracts for assume / stub / external_body / admit."""
    found = []
    pats = re.compile(r"kani::assume|#\[kani::stub|stub_verified|external_body|assume_specification|admit\(|assume\(")
    for path in sorted(glob.glob(os.path.join(ROOT, "contracts", "**", "*"), recursive=True)):
        if not os.path.isfile(path) or not path.endswith((".rs", ".spec", ".json", ".py")):
            continue
        with open(path, errors="replace") as fh:
            for i, line in enumerate(fh, 1):
                if pats.search(line) and not line.strip().startswith("//"):
                    found.append("%s:%d: %s" % (os.path.relpath(path, ROOT), i, line.strip()[:140]))
    return found


def write_evidence(prop, tier, seed, results, log, wall, undecided=None, skip=False, violations=0,
                   known_lines=None, sel=None):
    if skip:
        return
    os.makedirs(EVIDENCE_DIR, exist_ok=True)
    complete = [r for r in results if r.ob.kind == "complete" and not r.ob.canary]
    bounded = [r for r in results if r.ob.kind == "bounded" and not r.ob.canary]
    canaries = [r for r in results if r.ob.canary]
    fns = sorted({f for r in results if not r.ob.canary for f in r.ob.fns})
    backends = sorted({r.ob.backend for r in results})
    cmds = sorted({r.cmd for r in results if r.cmd})
    ev = {
        "property_id": prop,
        "tier": tier,
        "seed": seed,
        "level": "other",
        "coverage": {
            "explanation": _explanation(prop),
            "obligations": len(complete),
            "discharged": len([r for r in complete if r.status == "discharged"]),
            "bounded": [dict(r.to_json()) for r in bounded],
            "bounded_total": len(bounded),
            "bounded_passed": len([r for r in bounded if r.status == "discharged"]),
            "vacuity_canaries": {"total": len(canaries), "failed_as_required": len([r for r in canaries if r.status == "canary_ok"])},
            "functions_under_contract": fns,
            "backends": backends,
            "checker_cmd": " ; ".join(c[:400] for c in cmds)[:4000] or "n/a",
            "solver_time_s": round(sum(r.solver_s for r in results), 3),
            "cbmc_checks_total": sum(r.n_checks for r in results),
            "trusted_base": _trusted(prop, results),
            "samples": [r.to_json() for r in complete + bounded],
            "undecided": [r.to_json() for r in results if r.status in ("undecided", "canary_broken")],
            "known_findings": known_lines or [],
            "instrumentation_log": log,
            "assume_stub_scan": scan_assumptions(),
            "exhaustive": False,
        },
        "assumptions": _trusted(prop, results),
        "wall_s": round(wall, 2),
        "violations": violations,
    }
    if undecided:
        ev["coverage"]["undecided_reason"] = undecided
    with open(os.path.join(EVIDENCE_DIR, "%s.json" % prop), "w") as fh:
        json.dump(ev, fh, indent=1)


def _explanation(prop):
    p = os.path.join(ROOT, "contracts", "coverage_notes.json")
    if os.path.exists(p):
        with open(p) as fh:
            d = json.load(fh)
        if prop in d:
            return d[prop]
    return "Contract obligations on leaf functions; see DESIGN.md section 4 for what is not covered."


def _trusted(prop, results):
    t = [ASSUMPTIONS["A1"], ASSUMPTIONS["A8"]]
    if any(r.ob.checks != "full" for r in results):
        t.append(ASSUMPTIONS["A2"])
    p = os.path.join(ROOT, "contracts", "assumptions.json")
    if os.path.exists(p):
        with open(p) as fh:
            d = json.load(fh)
        for k in d.get(prop, []):
            t.append(ASSUMPTIONS.get(k, k))
    return t


def finish(prop, tier, seed, sel, results, log, t0, scratch, scratch_repo, skip_evidence=False):
    known = load_known()
    violations = []
    known_lines = []
    undecided = []
    for r in results:
        if r.status in ("undecided", "canary_broken"):
            undecided.append(r)
        elif r.status == "violated":
            # split failing checks into known / unknown
            unknown = []
            for f in r.failed_checks:
                hit = None
                for k in known:
                    if k["property"] == prop and fnmatch.fnmatch(r.ob.name, k["obligation"]) and k["match"] in f["description"]:
                        hit = k
                        break
                if hit:
                    line = "KNOWN-FINDING: property=%s obligation=%s %s (%s)" % (prop, r.ob.name, hit["text"], f["description"][:120])
                    if line not in known_lines:
                        known_lines.append(line)
                else:
                    unknown.append(f)
            if unknown:
                r.unknown_failed = unknown
                violations.append(r)
            else:
                r.status = "known_finding"
    # every selected obligation must have a result
    have = {r.ob.fqn for r in results}
    for o in sel:
        if o.fqn not in have:
            log.append("missing result for %s" % o.name)
    missing = [o for o in sel if o.fqn not in have]

    paths = []
    if violations:
        import replay
        for r in violations:
            path, found_input = replay.make_replay(prop, r, scratch, scratch_repo, log)
            paths.append((r, path, found_input))

    wall = time.time() - t0
    write_evidence(prop, tier, seed, results, log, wall, skip=skip_evidence, violations=len(violations),
                   known_lines=known_lines, sel=sel)

    for line in known_lines:
        print(line)
    n_complete = len([r for r in results if r.ob.kind == "complete" and not r.ob.canary])
    n_dis = len([r for r in results if r.ob.kind == "complete" and not r.ob.canary and r.status == "discharged"])
    n_b = len([r for r in results if r.ob.kind == "bounded" and not r.ob.canary])
    n_bd = len([r for r in results if r.ob.kind == "bounded" and not r.ob.canary and r.status == "discharged"])
    print("property=%s tier=%s obligations(complete)=%d discharged=%d bounded=%d bounded_passed=%d canaries=%d solver_s=%.1f wall_s=%.1f"
          % (prop, tier, n_complete, n_dis, n_b, n_bd, len([r for r in results if r.ob.canary]),
             sum(r.solver_s for r in results), wall))
    for r, path, found in paths:
        descs = "; ".join(f["description"][:100] for f in r.unknown_failed[:3])
        print("  obligation %s FAILED in %s: %s" % (r.ob.name, ",".join(r.ob.fns), descs))
        print("VIOLATION property=%s replay=%s%s" % (prop, path, "" if found else " no-failing-input-found"))
    by_reason = {}
    for r in undecided:
        by_reason.setdefault(r.reason[:300], []).append(r.ob.name)
    for reason, names in by_reason.items():
        if len(names) > 3:
            print("UNDECIDED property=%s obligations=%d (%s ..) reason=%s" % (prop, len(names), ", ".join(names[:3]), reason))
        else:
            for n in names:
                print("UNDECIDED property=%s obligation=%s reason=%s" % (prop, n, reason))
    for o in missing:
        print("UNDECIDED property=%s obligation=%s reason=no-result" % (prop, o.name))
    if violations:
        return 1
    if undecided or missing:
        return 2
    return 0
